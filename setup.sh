#!/bin/sh
# Offline setup: nothing to install. Pre-builds the working-tree Cython extension (plain + ASan) into .cache.
cd "$(dirname "$0")"
chmod +x check
mkdir -p evidence replays .cache
PYTHONPATH="$PWD" /venv/bin/python -m vf.build || exit 1
echo setup ok
