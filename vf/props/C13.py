"""C13 - consumption starts at the committed offset, else per auto_offset_reset; an explicit seek() wins.

Real AIOKafkaConsumer with manual assignment (with a group_id: committed offsets come from FindCoordinator +
OffsetFetch at the simulated group coordinator; without: group-less) against the simulated cluster
(vf.scen_consumer), one partition led by broker 0, coordinator on broker 1.

Grid (exhaustive): committed in {absent, inside, at a transaction marker, above the last stable offset, == log end,
below the log start, beyond the log end, exactly 0 (below the start of the truncated log / the first record of an
untruncated one)} x policy {earliest, latest, none} x isolation level x {group + assign,
group-less} x ListOffsets version cap v0..v3 (v0/v1 brokers: legacy-format log, read_uncommitted only - such brokers
store no transactions and aiokafka refuses read_committed against them at request-build time) x a log whose start
was advanced by retention (log start 2) and that ends in an open transaction (LSO 5 < HW 7).

Oracle (vf.scen_consumer.Model, expectation computed here from the grid cell alone): the first delivered record /
the first position() is the committed offset when one exists and lies inside [log start, log end]; else the log
start (earliest) or the end offset the broker reports for the isolation level (latest: LSO for read_committed on a
v2+ broker, else the high watermark); else NoOffsetForPartitionError (nothing committed) / OffsetOutOfRangeError
(committed offset outside the log) raised to the caller (policy none), within the horizon.  After a seek(tp, o) the
first record is the first visible one >= o and position() lies in [o, next visible record].

Families
  G  grid x program {getone(tp) | position(tp)} on the default schedule plus f<=1 (retriable codes OffsetFetch 14/16/15,
     ListOffsets 6/3/5, FindCoordinator 15; drop-before/after, lost reply) and r<=1; thorough: r<=1 and f<=1 together on
     the v2/v3 cells, p<=1 everywhere
  T  two partitions (leaders on different brokers) whose committed-offset lookups are staggered by a late leader election
     and a slow coordinator reply, r/p/f<=1
  S  grid cells x a seek(tp, o) gate that the explorer may release at every choice point between assignment and the
     first delivery / raised exception / position() result (r<=1 at quiescent points, p<=1 inside callback cascades);
     thorough: three targets (visible record, log start, above the LSO) on v3 and the seek combined with one fault
"""
from vf import explore, scen_consumer

LEVEL = "model_checking"

TXN_LOG = [["p", 1], ["p", 1], ["p", 1], ["d", 1, 1], ["c", 1], ["d", 2, 1], ["p", 1]]
# offsets: 0 p | 1 p | 2 p | 3 data pid1 | 4 COMMIT pid1 | 5 data pid2 (open) | 6 p      LSO = 5, HW = 7, log start 2
LEGACY_LOG = ["v1", "v1", "v1", "v1", "v1gz2", "v1"]  # 7 offsets, log start 2
LOG_START, END, LSO = 2, 7, 5
COMMITTED = {"absent": None, "inside": 3, "marker": 4, "unstable": 6, "end": 7, "below": 1, "beyond": 9, "zero": 0}
LEGACY_COMMITTED = ("absent", "inside", "end", "below", "beyond", "zero")

ERRS = {"OffsetFetch": [14, 16, 15], "ListOffsets": [6, 3, 5], "FindCoordinator": [15]}
#  COORDINATOR_LOAD_IN_PROGRESS, NOT_COORDINATOR, COORDINATOR_NOT_AVAILABLE | NOT_LEADER, UNKNOWN_TOPIC_OR_PARTITION, LEADER_NOT_AVAILABLE | COORDINATOR_NOT_AVAILABLE
FAULTS = {"faults": ["drop-before", "drop-after", "lose", "err"], "fault_apis": ["OffsetFetch", "ListOffsets", "FindCoordinator"],
          "errs": ERRS}


def expectation(committed, policy, isolation, cap, group, log_start=LOG_START):
    """Where consumption must start, from the grid cell alone: an offset or ["raise", exception name]."""
    latest = LSO if (isolation == "read_committed" and cap >= 2) else END
    if group and committed is not None and log_start <= committed <= END:
        return committed
    out_of_range = group and committed is not None
    if policy == "earliest":
        return log_start
    if policy == "latest":
        return latest
    return ["raise", "OffsetOutOfRangeError" if out_of_range else "NoOffsetForPartitionError"]


def cells(ctx):
    """(cap, isolation, policy, group, committed name, log start).  Log start 2 (retention) for the full committed range;
    log start 0 with nothing committed and with a committed offset of exactly 0 (the first record of an untruncated log)."""
    out = []
    for cap in (3, 2, 1, 0):
        legacy = cap < 2
        for isolation in ("read_uncommitted", "read_committed"):
            if legacy and isolation == "read_committed":
                continue
            for policy in ("earliest", "latest", "none"):
                for group in (True, False):
                    names = (LEGACY_COMMITTED if legacy else tuple(COMMITTED)) if group else ("absent",)
                    for cname in names:
                        out.append((cap, isolation, policy, group, cname, LOG_START))
                    for cname in (("zero", "absent") if group else ()):
                        out.append((cap, isolation, policy, group, cname, 0))
    return out


def cell_params(cap, isolation, policy, group, cname, log_start=LOG_START):
    legacy = cap < 2
    versions = {"ListOffsets": [0, cap]}
    if legacy:
        versions["Fetch"] = [0, 3 if cap == 1 else 2]
        log = {"shapes": LEGACY_LOG, "log_start": log_start}
    else:
        log = {"txn": TXN_LOG, "log_start": log_start}
    committed = COMMITTED[cname]
    p = dict(FAULTS, logs={"0": log}, group="g" if group else None, policy=policy, isolation=isolation, versions=versions,
             coordinator=1, baseline="net",
             expect_start={"0": expectation(committed, policy, isolation, cap, group, log_start)})
    if group and committed is not None:
        p["committed"] = {"0": committed}
        if not log_start <= committed <= END:
            p["expect_oor"] = {"0": committed}
    return p


def cell_name(cap, isolation, policy, group, cname, log_start=LOG_START):
    return (f"v{cap}/{'rc' if isolation == 'read_committed' else 'ru'}/{policy}/{'group' if group else 'nogroup'}/{cname}"
            + ("" if log_start == LOG_START else f"-ls{log_start}"))


G1P = ["getone", [0]]
PO = ["position", 0]


def scenarios(ctx):
    quick = ctx.quick
    out = []
    for cell in cells(ctx):
        cap, isolation, policy, group, cname, log_start = cell
        base = cell_params(*cell)
        name = cell_name(*cell)
        progs = [("get", [[G1P]]), ("pos", [[PO]])]
        for pname, prog in progs:
            if quick and pname == "pos" and cap in (2, 0):
                continue
            if quick:
                b = [{"f": 1}, {"r": 1}]
            elif cap >= 2:
                b = [{"f": 1, "r": 1}, {"p": 1}]
            else:
                b = [{"f": 1}, {"r": 1}, {"p": 1}]
            out.append((f"G/{name}/{pname}", dict(base, program=prog), b))
        # seek injected at every choice point between assignment and first delivery
        if quick and (cap in (2, 0) or cname in ("marker", "end", "unstable") or log_start != LOG_START):
            continue
        targets = [3] if (quick or cap != 3) else [3, 2, 6]
        for o in targets:
            for basel in ("net", "app"):
                if quick and basel == "app" and cname not in ("absent", "beyond"):
                    continue
                for pname, prog in progs:
                    if pname == "pos" and (quick or o != 3):
                        continue
                    b = [{"r": 1}, {"p": 1}]
                    if (not quick and cap == 3 and group and o == 3 and pname == "get"
                            and cname in ("absent", "inside", "beyond", "below")):
                        b = [{"r": 1, "f": 1}, {"p": 1, "f": 1}]  # a fault on the lookup and the seek in the same run
                    out.append((f"S/{name}/{basel}/seek{o}/{pname}", dict(base, program=prog, baseline=basel, inject_seek=[0, o]), b))
    out.extend(two_partition_scenarios(ctx))
    return out


def two_partition_scenarios(ctx):
    """Family T: two partitions of one manual assignment whose committed-offset lookups are staggered: the leader of t-1 is
    elected only some time after assign() (metadata says LEADER_NOT_AVAILABLE until then) and the coordinator answers
    OffsetFetch slowly, so the lookup for t-1 is registered while the OffsetFetch for t-0 is still in flight.  Each
    partition must still start at its own committed offset (t-0: 3, t-1: 1; neither equals a reset result)."""
    out = []
    for policy in ("earliest", "latest", "none"):
        for delay, after in ((40, 60), (0, 60), (40, 0)):
            if ctx.quick and (delay, after) != (40, 60) and policy != "latest":
                continue
            for basel in ("net", "app"):
                p = dict(FAULTS, logs={"0": {"txn": TXN_LOG, "log_start": LOG_START}, "1": {"txn": [["p", 1], ["p", 1], ["p", 1]]}},
                         group="g", policy=policy, isolation="read_uncommitted", coordinator=0, baseline=basel,
                         committed={"0": 3, "1": 1}, expect_start={"0": 3, "1": 1}, program=[],
                         offset_fetch_delay_ms=delay)
                if after:
                    p["late_leader"] = {"part": 1, "after_ms": after}
                b = [{"r": 1}, {"p": 1}, {"f": 1}]
                out.append((f"T/{policy}/{basel}/delay{delay}-elect{after}", p, b))
    return out


def run(ctx):
    ctx.rule = ("every cell of the grid committed x policy x isolation x group/group-less x ListOffsets cap, each explored over every "
                "schedule of environment events whose deviation counts (r reorderings incl. the injected seek at a quiescent point, p "
                "the injected seek / deliveries inside a callback cascade, f faults on OffsetFetch/ListOffsets/FindCoordinator) fit "
                "one of the budget vectors; every execution runs the real consumer from a fresh loop")
    ctx.assumptions += [
        "simulated group coordinator serves OffsetFetch/FindCoordinator per DESIGN Appendix A; ListOffsets honours the isolation level from v2",
        "read_committed x ListOffsets v0/v1 excluded: aiokafka refuses to build the request (IncompatibleBrokerVersion) and no broker "
        "without ListOffsets v2 stores transactions",
        "faults limited to retriable codes (OffsetFetch 14/16/15, ListOffsets 6/3/5, FindCoordinator 15), drop-before/after, lost reply",
        "bounded liveness: horizon 4 virtual seconds of polling (request timeout 1 s, retry backoff 50 ms)",
        "subscribe()-based group membership is explored by the C04-C06 checks, not here",
    ]
    only = getattr(ctx, "only", None)
    scs = [s for s in scenarios(ctx) if not only or only in s[0]]
    fam = {}
    for name, _, b in scs:
        fam.setdefault(name.split("/")[0], {"scenarios": 0, "budgets": b})["scenarios"] += 1
    ctx.bounds = {"families": fam, "grid_cells": len(cells(ctx))}
    counts = scen_consumer.explore_chunked(ctx, [(name, scen_consumer.make, params, bounds) for name, params, bounds in scs])
    per_family = {}
    for name, n in counts.items():
        per_family[name.split("/")[0]] = per_family.get(name.split("/")[0], 0) + n
    ctx.note("executions_per_family", per_family)
    for k in [k for k in ctx.counts if k.startswith("exec:")]:
        del ctx.counts[k]
    scen_consumer.family_sigs(ctx)
    if scs:
        ctx.sample({"scenario": scs[0][0], "params": scs[0][1]})
        ctx.sample({"scenario": scs[-1][0], "params": scs[-1][1]})
    if len(ctx.sets.get("outcomes", ())) < 2:
        ctx.violation("vacuity", {"what": "single-outcome"}, {}, "exploration produced a single outcome")


def replay(ctx, data):
    res, same = explore.replay_execution(scen_consumer.make, data)
    if not same:
        print("REPLAY NOT DETERMINISTIC")
        return 2
    return 1 if res.violations else 0
