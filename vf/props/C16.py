"""C16 - the transactional API is a strict state machine with recoverable (abortable) and fatal errors.

Programs: every call sequence of <=4 (quick) / <=6 (thorough) calls over {begin, send(p0), send(p1),
send_offsets_to_transaction, commit, abort, `async with producer.transaction()` left normally / by an exception},
generated over the reference model vf.txn_model (quick: at most one call per sequence is illegal in the fault-free
model; thorough: all-legal sequences up to 6 calls, one illegal call up to 5, two up to 4 - an illegal call leaves the
model state unchanged, so further illegal calls only repeat an equivalent prefix).
Each program runs on the real transactional AIOKafkaProducer against the simulated cluster under the default schedule
of both baselines (net-eager, app-eager), without fault and with exactly one error injected at each transactional
request it makes (explorer budget f=1): abortable (TOPIC / GROUP_AUTHORIZATION_FAILED as ACL *state*), fatal (fencing by a
second InitProducerId, OUT_OF_ORDER_SEQUENCE_NUMBER on Produce, TRANSACTIONAL_ID_AUTHORIZATION_FAILED as ACL state),
retriable (COORDINATOR_LOAD_IN_PROGRESS / NOT_LEADER_FOR_PARTITION).  After the program an epilogue probes the state
the producer was left in: [abort if a transaction is open], begin, send, commit must succeed (after a fatal error:
begin must fail).

Oracle (vf.scen_txn.check_model): per call the model says returns / raises X / unspecified; no request while an illegal
call is in progress; nothing written after a fatal error was delivered; every accepted send resolves; commit after an
abortable error raises that error; the epilogue transaction commits and is visible to a read-committed reader.

Known cap: with a batch queued for a topic that Metadata reports as unauthorized, `_sender_routine` re-requests metadata
without any back-off (leader unknown -> force_metadata_update -> repeat) until the batch expires after
request_timeout_ms; in virtual time that is ~10^5 round trips at one instant, so those executions (thorough tier only)
end at the step cap and are reported under caps_hit, not judged.
"""
from vf import explore, scen_txn, txn_model

LEVEL = "model_checking"

FAULTS = ["acl-topic", "acl-group", "fence", "oos", "acl-txn", "retriable"]


def scenarios(ctx):
    quick = ctx.quick
    out = []
    if quick:
        seqs = txn_model.sequences(4, 1)
    else:  # <=6 calls all legal, <=5 calls with one illegal call, <=4 calls with two
        seqs = sorted(set(txn_model.sequences(6, 0)) | set(txn_model.sequences(5, 1)) | set(txn_model.sequences(4, 2)),
                      key=lambda s: (len(s), s))
    for seq in seqs:
        for base in ("net", "app"):
            name = f"{base}:" + ",".join(seq)
            out.append((name, {"mode": "c16", "calls": list(seq), "baseline": base, "faults": FAULTS}, {"f": 1}))
    return out


def run(ctx):
    ctx.rule = ("every call sequence generated over the reference model (quick: <=4 calls, <=1 illegal; thorough: <=6 calls all "
                "legal, <=5 with one illegal call, <=4 with two) x {net-eager, app-eager default schedule} x {no fault, one abortable / fatal / retriable "
                "error at each transactional request or Produce the program causes}; each executed on the real producer")
    ctx.assumptions += [
        "simulated transaction coordinator follows DESIGN Appendix A; authorization errors and fencing are cluster state",
        "default schedule only (no reordering, no mid-cascade injection); one injected error per execution",
        "out-of-order begin/commit/abort may answer with AssertionError (the library's transition guard is an assert)",
    ]
    only = getattr(ctx, "only", None)
    scs = [s for s in scenarios(ctx) if not only or only in s[0]]
    ctx.bounds = {"max_calls": 4 if ctx.quick else 6, "budget": {"f": 1}, "programs": len(scs), "horizon_s": scen_txn.H_CALL}
    sub = scen_txn.DedupAcc(ctx)
    # many small programs: one worker task per program (the whole f<=1 tree below it), not one per execution
    counts = explore.explore_many(sub, [(name, scen_txn.make, params, bounds) for name, params, bounds in scs], descend_level=0)
    sub.finish_into(ctx)
    for v in ctx.violations:
        ctx.log("finding", v["key"])
    ctx.note("programs", len(scs))
    ctx.note("executions_max_per_program", max(counts.values()) if counts else 0)
    for k in [k for k in ctx.counts if k.startswith("exec:")]:
        del ctx.counts[k]
    ctx.sample({"scenario": scs[0][0], "params": scs[0][1]})
    ctx.sample({"scenario": scs[-1][0], "params": scs[-1][1]})
    if len(ctx.sets.get("outcomes", ())) < 2:
        ctx.violation("vacuity", {"what": "single-outcome"}, {}, "exploration produced a single outcome")


def replay(ctx, data):
    res, same = explore.replay_execution(scen_txn.make, data)
    if not same:
        print("REPLAY NOT DETERMINISTIC")
        return 2
    return 1 if res.violations else 0
