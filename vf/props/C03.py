"""C03 - the consumer yields each visible record once, in offset order, from its position.

Stateless deviation-bounded exhaustive exploration of the real AIOKafkaConsumer (fetcher, subscription state,
client, connections; manual assignment, no group) against the simulated cluster (vf.scen_consumer), 2 partitions
on 2 brokers.  Oracle = the reference consumer of vf.scen_consumer.Model (a list of visible offsets per
partition + a start position), fed with the harness-visible history only:

  order      every returned record is the first visible record at/after the reference position (seek target, else
             one past the previous record, else the log start): nothing skipped, nothing repeated, and the first
             record after a seek is the first visible one >= its target
  visible    only data records are returned (never a control record / a compacted-away offset), content intact
  position   position() within [one past the last returned record or the seek target, next visible unreturned
             record]; == the sought offset when called right after seek()
  pause      nothing from a partition between pause() and resume();  filter: nothing outside the partitions argument
  liveness   after the program a task that keeps polling receives everything up to the log end within the horizon
  exception  no call raises (the faults are all retriable)

Families
  A  inputs: every log of <= N stored batches over the 8 shapes on partition 0 x {start at 0, seek to every inner
     offset} x {response cut: explorer choice x<=1 around "everything", constant 1 batch per response}, budgets
     x<=1 / r<=1; polled with getmany(), and with getone() for the one-batch-per-response walks.
  B  programs: every program of the stated sizes (quick: 1 task x 2 calls, 2 tasks x 1 call; thorough adds 1 x 3 and
     2 + 1) over the 11-letter call alphabet on representative logs, both baselines, both wake orders of blocked
     callers, single-deviation budgets (r, p, f, x).
  W  both partitions empty, getone() parked; an outside producer appends a record to t-0 at the instant the long poll of
     the other broker expires, so a reply with data and a reply without are pending together (p<=1, p<=1 + r<=1): the
     parked caller must be woken
  H  hand-picked 3-4 call programs (seek / pause / max_records races across two tasks) with pairwise budgets.
"""
from vf import conslogs, explore, scen_consumer

LEVEL = "model_checking"

FETCH_ERRS = [6, 3, 9]  # NOT_LEADER_OR_FOLLOWER, UNKNOWN_TOPIC_OR_PARTITION, REPLICA_NOT_AVAILABLE
FAULTS = {"faults": ["drop-before", "drop-after", "lose", "err"], "fault_apis": ["Fetch"], "errs": {"Fetch": FETCH_ERRS},
          "leader_move": [0]}
P1_LOG = {"shapes": ["v1", "v2x1"]}

G1 = ["getone"]
G1P = ["getone", [0]]
GM = ["getmany", {"t": 100}]
GM1 = ["getmany", {"t": 100, "max": 1}]
GM2 = ["getmany", {"t": 100, "max": 2}]
GMP = ["getmany", {"t": 100, "parts": [1]}]
PA = ["pause", 0]
RE = ["resume", 0]
PO = ["position", 0]


def S(o):
    return ["seek", 0, o]


def SP(o):
    return ["seekpos", 0, o]


def alphabet(mid, end):
    # seek targets: log start, inside a multi-record batch, beyond the log end (the broker reports it out of range and the
    # start position becomes the reset result)
    return [G1, G1P, GM, GM1, GM2, S(0), S(mid), S(end + 3), PA, RE, PO]


def short(call):
    if call[0] == "getone":
        return "g1" + ("p" if len(call) > 1 else "")
    if call[0] == "getmany":
        o = call[1]
        return "gm" + (str(o["max"]) if "max" in o else "") + ("p" if o.get("parts") else "")
    if call[0] in ("seek", "seekpos"):
        return ("s" if call[0] == "seek" else "sp") + str(call[2])
    return {"pause": "pa", "resume": "re", "position": "po"}[call[0]]


def prog_name(prog):
    return "|".join(".".join(short(c) for c in task) for task in prog)


def programs(alpha, shape):
    """shape: tuple of task lengths, e.g. (2,) one task of two calls, (1, 1) two tasks of one call."""
    def seqs(n):
        out = [()]
        for _ in range(n):
            out = [s + (c,) for s in out for c in alpha]
        return out

    if len(shape) == 1:
        return [[list(s)] for s in seqs(shape[0])]
    a, b = shape
    out = []
    for i, s in enumerate(seqs(a)):
        for j, t in enumerate(seqs(b)):
            if a == b and j < i:
                continue  # the two tasks are interchangeable
            out.append([list(s), list(t)])
    return out


def scenarios(ctx):
    quick = ctx.quick
    out = []

    def add(name, params, bounds):
        out.append((name, params, bounds))

    # ---- family A: every log shape, every start offset, cuts ---------------------------------------------------
    logs = conslogs.all_logs(2, conslogs.SHAPES) if quick else (
        conslogs.all_logs(2, conslogs.SHAPES + ("hole",)) + conslogs.all_logs(3, conslogs.SHAPES, min_batches=3))
    for log in logs:
        end = conslogs.log_end(log)
        lname = "-".join(log)
        for cuts, cname in ((None, "all"), (1, "one")):
            if cuts == 1 and sum(1 for s in log if s != "hole") < 2:
                continue
            base = {"logs": {"0": {"shapes": list(log)}, "1": P1_LOG}, "baseline": "net", "cuts": cuts,
                    "cut_choice": cuts is None}
            add(f"A/{lname}/{cname}/start", dict(base, program=[]), [{"x": 1}, {"r": 1}])
            if cuts == 1:
                # the same walk through the log with getone() (the hand-out path that takes one record at a time and must
                # still move the position over a response that ends in offsets yielding no record)
                add(f"A/{lname}/{cname}/start-getone", dict(base, program=[], drain_call="getone"), [{"r": 1}])
            for o in range(1, end + 1):
                add(f"A/{lname}/{cname}/seek{o}", dict(base, program=[[SP(o)]]), [{"x": 1}, {"r": 1}] if cuts is None else [{"r": 1}])
    # ---- family B: every small program --------------------------------------------------------------------------
    blogs = [("gzgap", ["v1gz2", "v2gap"], 1)] if quick else [("gzgap", ["v1gz2", "v2gap"], 1), ("x2ctlx2", ["v2x2", "ctl", "v2x2"], 4)]
    for lname, log, mid in blogs:
        alpha = alphabet(mid, conslogs.log_end(log))
        shapes_b = [(2,), (1, 1)] if quick else [(2,), (1, 1), (3,), (2, 1)]
        for shape in shapes_b:
            big = shape in ((3,), (2, 1))
            if big and lname != "gzgap":
                continue
            for prog in programs(alpha, shape):
                for basel in ("net", "app"):
                    if big and basel == "net":
                        continue
                    # two blocked callers are woken in set-iteration order inside the library: explore both extremes
                    orders = ("fifo", "lifo") if (len(shape) == 2 and basel == "app" and not big) else ("fifo",)
                    for order in orders:
                        params = dict(FAULTS, logs={"0": {"shapes": log}, "1": P1_LOG}, baseline=basel, program=prog,
                                      cut_choice=True, waiter_order=order)
                        if big:
                            b = [{"r": 1}]
                        elif quick:
                            b = [{"r": 1}, {"f": 1}] if (len(shape) == 1 or basel == "net") else [{"r": 1}, {"p": 1}, {"f": 1}]
                        else:
                            b = [{"r": 1}, {"p": 1}, {"f": 1}, {"x": 1}]
                        add(f"B/{lname}/{basel}{'-lifo' if order == 'lifo' else ''}/{prog_name(prog)}", params, b)
    # ---- family H: races, pairwise budgets -------------------------------------------------------------------------
    hlog = ["v1gz2", "v2gap"] if quick else ["v1gz2", "v2gap", "v2x2"]
    hand = [
        [[G1, S(1), G1P, PO]],
        [[GM1, GM1], [S(0), G1]],
        [[PA, G1, RE, G1P]],
        [[G1, G1, G1], [PA, PO, RE]],
        [[GM, S(3), GM2], [G1, PO]],
        [[GMP, G1P], [S(1), GM1, PO]],
        [[S(40), S(1), G1P, PO]],
        [[G1, S(40), GM1], [S(4), PO]],
    ]
    for prog in hand:
        for basel in ("net", "app"):
            params = dict(FAULTS, logs={"0": {"shapes": hlog}, "1": P1_LOG}, baseline=basel, program=prog, cut_choice=True)
            if quick:
                b = [{"r": 1, "f": 1}, {"p": 1}, {"x": 1}] if prog in hand[:3] + hand[6:7] else [{"r": 1}, {"p": 1}, {"f": 1}, {"x": 1}]
            else:
                b = [{"r": 1, "f": 1}, {"p": 1, "f": 1}, {"r": 1, "p": 1}, {"r": 2}, {"f": 2}, {"r": 1, "x": 1}]
            add(f"H/{basel}/{prog_name(prog)}", params, b)
    # ---- family W: a reply with data and a reply without data land together while getone() is parked -----------------
    for basel in ("net", "app"):
        params = {"logs": {"0": {"shapes": []}, "1": {"shapes": []}}, "baseline": basel,
                  "program": [[["getone", [], 1.5]]], "produce": {"part": 0, "node": 1, "nth": 1}}
        b = [{"p": 1}, {"p": 1, "r": 1}] if (basel == "net" or not quick) else [{"p": 1}]
        add(f"W/{basel}/parked-getone", params, b)
    return out


def run(ctx):
    ctx.rule = ("every schedule of environment events (per-connection FIFO deliveries, application gates, timers, faults, response "
                "cuts) whose deviation counts (r reorderings, p mid-cascade injections, f faults, x data choices) fit one of the "
                "budget vectors, around the net-eager and app-eager baselines, each executed on the real consumer from a fresh loop; "
                "inputs: every log of the stated size over the 8 batch shapes, every start offset, every program of the stated sizes")
    ctx.assumptions += [
        "simulated cluster follows Kafka's fetch rules (whole batch containing the fetch offset, cuts at batch boundaries, "
        "long poll, NOT_LEADER after a leader move) - DESIGN E4",
        "faults limited to the retriable alphabet of the property (fetch errors 6/3/9, leader move, drop-before/after, lost reply)",
        "bounded liveness: horizon 4 virtual seconds of polling after the program (request timeout 1 s, retry backoff 50 ms)",
        "timers fire only at loop-iteration boundaries",
    ]
    only = getattr(ctx, "only", None)
    scs = [s for s in scenarios(ctx) if not only or only in s[0]]
    fam = {}
    for name, _, b in scs:
        fam.setdefault(name.split("/")[0], {"scenarios": 0, "budgets": b})["scenarios"] += 1
    ctx.bounds = {"families": fam, "log_batches_max": 2 if ctx.quick else 3}
    counts = scen_consumer.explore_chunked(ctx, [(name, scen_consumer.make, params, bounds) for name, params, bounds in scs])
    per_family = {}
    for name, n in counts.items():
        per_family[name.split("/")[0]] = per_family.get(name.split("/")[0], 0) + n
    ctx.note("executions_per_family", per_family)
    for k in [k for k in ctx.counts if k.startswith("exec:")]:
        del ctx.counts[k]
    scen_consumer.family_sigs(ctx)
    if scs:
        ctx.sample({"scenario": scs[0][0], "params": scs[0][1]})
        ctx.sample({"scenario": scs[-1][0], "params": scs[-1][1]})
    if len(ctx.sets.get("outcomes", ())) < 2:
        ctx.violation("vacuity", {"what": "single-outcome"}, {}, "exploration produced a single outcome")


def replay(ctx, data):
    res, same = explore.replay_execution(scen_consumer.make, data)
    if not same:
        print("REPLAY NOT DETERMINISTIC")
        return 2
    return 1 if res.violations else 0
