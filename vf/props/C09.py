"""C09 - record batches round-trip and both codec implementations agree.

Bounded exhaustive enumeration (vf.recgen) of record sequences x magic x codec x producer fields x
batch_size limits through {compiled, pure-Python} builders, read back by {compiled, pure-Python}
readers and by the independent reference codec vf.krecords, plus reference-built buffers (control,
LogAppendTime, compaction gaps, rebased) and every concatenation of 1..3 small batches of any magic
mix with / without a trailing partial batch cut at every byte.
"""
import itertools
import re

from vf import krecords as K
from vf import recgen as G
from vf.runner import Acc, HarnessError, h64

LEVEL = "exploration"

PID = (-1, 0, 2**63 - 1)
PEPOCH = (-1, 0, 2**15 - 1)
BSEQ = (-1, 0, 2**31 - 1)


# ---------------------------------------------------------------- JSON <-> records
def _hx(b):
    return None if b is None else bytes(b).hex()


def _unhx(s):
    return None if s is None else bytes.fromhex(s)


def seq_to_json(seq):
    return [[ts, _hx(k), _hx(v), [[hk, _hx(hv)] for hk, hv in h]] for ts, k, v, h in seq]


def seq_from_json(js):
    return [(ts, _unhx(k), _unhx(v), [(hk, _unhx(hv)) for hk, hv in h]) for ts, k, v, h in js]


def _cat(msg):
    """Stable category of a validator / codec message: the text before the first digit."""
    m = re.match(r"[^0-9]*", str(msg))
    return m.group(0).strip(" :-")[:40] or "?"


def _brief(x, n=300):
    s = repr(x)
    return s if len(s) <= n else s[:n] + f"...(+{len(s) - n})"


# ---------------------------------------------------------------- readers vs reference on one buffer
def _first_diff(got, ref):
    """-> (batch_index, symptom) of the first difference between two read_all views (checksum stripped)."""
    if len(got) != len(ref):
        return min(len(got), len(ref)), "batch-count"
    for i, ((ga, gr), (ra, rr)) in enumerate(zip(got, ref)):
        if ga != ra:
            ks = sorted(k for k in set(ga) | set(ra) if ga.get(k) != ra.get(k))
            return i, "attr:" + ks[0]
        if gr != rr:
            if len(gr) != len(rr):
                return i, "record-count"
            for g, r in zip(gr, rr):
                for name, a, b in zip(("offset", "timestamp", "timestamp_type", "key", "value", "headers"), g, r):
                    if a != b:
                        return i, "record:" + name
    return None


def check_readers(acc, data, origin, replay, refbatches=None):
    """Both readers must decode `data` exactly as the reference does (records and batch attributes,
    validate_crc included) and agree with each other (per-record checksum included)."""
    im = G.impls()
    if refbatches is None:
        try:
            refbatches = K.decode(data)
        except K.CodecError as e:
            raise HarnessError(f"reference cannot decode a buffer that is valid by construction ({origin}): {e}") from None
    ref = G.ref_view(refbatches)
    magics = [b.magic for b in refbatches]
    mixed = len(set(magics)) > 1
    views = {}
    for name in ("cython", "python"):
        acc.count("reader_runs")
        try:
            views[name] = G.read_all(im[name], data)
        except Exception as e:  # noqa: BLE001 - any exception on a valid buffer is a violation
            views[name] = None
            # which batch? decode prefixes of the buffer to locate it (cheap: buffers are small)
            acc.violation("readers_agree_with_reference",
                          {"kind": "reader", "reader": name, "built_by": origin, "mixed_magic": mixed,
                           "symptom": "exception:" + type(e).__name__},
                          replay, f"{name} reader raised {type(e).__name__}: {e} on a valid buffer of magics {magics} "
                                  f"({origin}); reference decodes {len(refbatches)} batch(es)")
            continue
        d = _first_diff(G.strip_checksum(views[name]), ref)
        if d is not None:
            i, symptom = d
            acc.violation("readers_agree_with_reference",
                          {"kind": "reader", "reader": name, "built_by": origin, "mixed_magic": mixed,
                           "magic": magics[i] if i < len(magics) else None, "symptom": symptom},
                          replay, f"{name} reader differs from the reference at batch {i} ({symptom}) on magics {magics} "
                                  f"({origin}): got {_brief(G.strip_checksum(views[name])[i:i + 1])} "
                                  f"want {_brief(ref[i:i + 1])}")
    if views.get("cython") is not None and views.get("python") is not None and views["cython"] != views["python"]:
        if G.strip_checksum(views["cython"]) == G.strip_checksum(views["python"]):
            acc.violation("readers_agree", {"kind": "reader-pair", "symptom": "record-checksum", "built_by": origin}, replay,
                          f"the two readers report different per-record checksums on magics {magics}")
    return refbatches


# ---------------------------------------------------------------- one builder case
def build_case(acc, case):
    """Run one builder case with full size accounting; returns built bytes (or None)."""
    im = G.impls()[case["builder"]]
    magic, codec, bs = case["magic"], case["codec"], case["batch_size"]
    seq = case["seq"]
    txn, pid, pepoch, bseq = case.get("txn", 0), case.get("pid", -1), case.get("pepoch", -1), case.get("bseq", -1)
    rp = dict(case, seq=seq_to_json(seq), kind="build")
    base = {"kind": "size", "builder": case["builder"], "magic": magic}

    def bad(oracle, what, msg, kind="size"):
        acc.violation(oracle, dict(base, kind=kind, what=what), rp, f"{case['builder']} builder magic={magic} "
                      f"codec={K.CODEC_NAMES[codec]} batch_size={bs}: {msg}")

    if case.get("set_state") and magic == 2:
        b = G.make_builder(im, magic, codec, bs, txn, -1, -1, -1)
        b.set_producer_state(pid, pepoch, bseq)
        if (b.producer_id, b.producer_epoch, b.base_sequence) != (pid, pepoch, bseq):
            bad("producer_fields", "set_producer_state", "producer_id/epoch/base_sequence properties differ from what was set",
                kind="roundtrip")
    else:
        b = G.make_builder(im, magic, codec, bs, txn, pid, pepoch, bseq)
    size = K.V2_HEADER if magic == 2 else 0
    if b.size() != size:
        bad("size_accounting", "size()", f"size() of a fresh builder is {b.size()}, expected {size}")
    accepted = []
    first_ts = None
    for i, (ts, key, value, headers) in enumerate(seq):
        if magic == 2:
            ref_len = len(K._encode_v2_record(i, 0 if first_ts is None else ts - first_ts, key, value, headers))
            sib = b.size_in_bytes(i, ts, key, value, headers)
            est = im.DefaultBuilder.estimate_size_in_bytes(key, value, headers)
            if est < K.V2_HEADER + ref_len:
                bad("size_accounting", "estimate", f"estimate_size_in_bytes()={est} is below header+record = {K.V2_HEADER + ref_len}")
            sof = im.DefaultBuilder.size_of(key, value, headers)
            md = None
        else:
            ref_len = len(K._encode_legacy_msg(magic, i, ts, key, value))
            sib = b.size_in_bytes(i, ts, key, value)
            ovh = im.LegacyBuilder.record_overhead(magic)
            if K.LOG_OVERHEAD + ovh + len(key or b"") + len(value or b"") != ref_len:
                bad("size_accounting", "record_overhead", f"record_overhead({magic})={ovh} does not give the message size {ref_len}")
        if sib != ref_len:
            bad("size_accounting", "size_in_bytes", f"size_in_bytes(record {i})={sib}, encoded record is {ref_len} bytes")
        md = b.append(i, ts, key, value, headers) if magic == 2 else b.append(i, ts, key, value)
        acc.count("appends")
        if md is None:
            if i == 0:
                bad("batch_size_limit", "first-record-refused", "the first record was refused")
            elif size + ref_len < bs:
                bad("batch_size_limit", "refused-but-fits",
                    f"record {i} refused although {size}+{ref_len} < batch_size")
            if b.size() != size:
                bad("size_accounting", "size()", f"size() changed from {size} to {b.size()} by a refused append")
            continue
        if i > 0 and size + ref_len > bs:
            bad("batch_size_limit", "accepted-beyond-limit",
                f"non-first record {i} accepted: {size}+{ref_len} > batch_size")
        size += ref_len
        if md.size != ref_len:
            bad("size_accounting", "metadata.size", f"metadata.size={md.size} for record {i}, encoded record is {ref_len} bytes")
        if b.size() != size:
            bad("size_accounting", "size()", f"size()={b.size()} after record {i}, bytes written so far {size}")
        accepted.append(i)
        if first_ts is None:
            first_ts = ts
    if magic != 2 and codec and not accepted:
        return None, accepted  # a compressed wrapper around nothing is not a Kafka batch; the producer never builds it
    data = bytes(b.build())
    acc.count("builds")
    if b.size() != len(data):
        bad("size_accounting", "size-after-build", f"size()={b.size()} after build(), built {len(data)} bytes")
    return data, (accepted, size, seq, rp)


def check_built(acc, case, data, info):
    """Well-formedness + round trip of library-built bytes, then all readers."""
    accepted, size, seq, rp = info
    magic, codec = case["magic"], case["codec"]
    who = case["builder"]

    def bad(oracle, kind, what, msg):
        acc.violation(oracle, {"kind": kind, "builder": who, "magic": magic, "what": what}, rp,
                      f"{who} builder magic={magic} codec={K.CODEC_NAMES[codec]} n={len(seq)}: {msg}")

    gaps = accepted != list(range(len(accepted)))
    try:
        raws = list(K.iter_raw_batches(data))
        if sum(len(r) for _, _, r in raws) != len(data):
            raise K.CodecError("trailing bytes that are not a complete batch")
        for _, _, raw in raws:
            for p in K.validate(raw, compacted=gaps):
                bad("wellformed", "wellformed", _cat(p), f"not a well-formed batch: {p}")
        refb = [K.decode_batch(raw) for _, _, raw in raws]
    except K.CodecError as e:
        bad("wellformed", "wellformed", _cat(e), f"reference cannot decode the builder's bytes: {e}")
        return
    # round trip: what the reference decodes == what was appended
    want = G.expected_records(magic, [seq[i] for i in accepted], offsets=accepted)
    got = [r for _, recs in G.ref_view(refb) for r in recs]
    if got != want:
        d = next((j for j, (a, b_) in enumerate(zip(got, want)) if a != b_), min(len(got), len(want)))
        fld = "count"
        if d < len(got) and d < len(want):
            fld = next(n for n, a, b_ in zip(("offset", "timestamp", "timestamp_type", "key", "value", "headers"), got[d], want[d])
                       if a != b_)
        bad("roundtrip", "roundtrip", fld, f"decoded record {d} differs in {fld}: got {_brief(got[d:d + 1])} want {_brief(want[d:d + 1])}")
    if magic == 2:
        if len(refb) != 1:
            bad("roundtrip", "roundtrip", "batch-count", f"{len(refb)} batches built")
            return
        b = refb[0]
        exp = dict(base_offset=0, timestamp_type=0, is_transactional=bool(case.get("txn", 0)), is_control=False,
                   producer_id=case.get("pid", -1), producer_epoch=case.get("pepoch", -1), base_sequence=case.get("bseq", -1),
                   record_count=len(accepted), partition_leader_epoch=-1,
                   last_offset=accepted[-1] if accepted else 0)
        if accepted:
            exp["first_timestamp"] = seq[accepted[0]][0]
            exp["max_timestamp"] = max(seq[i][0] for i in accepted)
        for k, v in exp.items():
            if getattr(b, k) != v:
                bad("roundtrip", "roundtrip", "header:" + k, f"batch header {k}={getattr(b, k)}, expected {v}")
        if b.compression not in (0, codec):
            bad("roundtrip", "roundtrip", "header:compression", f"compression {b.compression}, requested {codec}")
        unc = K.V2_HEADER + (len(K.inner_payload(data)) if b.compression else len(data) - K.V2_HEADER)
    else:
        unc = sum(len(K.inner_payload(b.raw)) if b.compression else len(b.raw) for b in refb)
        for b in refb:
            if b.compression not in ((codec,) if codec else (0,)):
                bad("roundtrip", "roundtrip", "header:compression", f"compression {b.compression}, requested {codec}")
    if unc != size:
        bad("size_accounting", "size", "uncompressed-size", f"accounted {size} bytes, uncompressed batch is {unc} bytes")
    if len(data) > size and not codec:
        bad("size_accounting", "size", "uncompressed-size", f"built {len(data)} bytes, accounted {size}")
    check_readers(acc, data, who, rp, refb)


def run_build(acc, case):
    acc.count("evaluations")
    acc.distinct("distinct", h64(("build", case["builder"], case["magic"], case["codec"], case["batch_size"],
                                  case.get("txn", 0), case.get("pid", -1), case.get("pepoch", -1), case.get("bseq", -1),
                                  case.get("set_state", 0), repr(case["seq"]))))
    data, info = build_case(acc, case)
    if data is None:
        return
    check_built(acc, case, data, info)


# ---------------------------------------------------------------- reference-built buffers
def ref_cases(seq, si):
    """Reference-built buffers for one sequence: (name, bytes, expected list of (magic, records))."""
    out = []
    if not seq:
        out.append(("v2-empty-compacted",
                    K.encode_v2([], base_offset=5, last_offset_delta=3, first_timestamp=G.T, max_timestamp=G.T + 1), [(2, [])]))
        return out
    n = len(seq)
    for codec in G.CODECS[2]:
        out.append((f"v2-{codec}", K.encode_v2(seq, compression=codec, base_offset=si), [(2, G.expected_records(2, seq, si))]))
    lat = G.T + 77
    out.append(("v2-logappend", K.encode_v2(seq, base_offset=2**40, timestamp_type=1, max_timestamp=lat, compression=si % 5,
                                            partition_leader_epoch=3),
                [(2, G.expected_records(2, seq, 2**40, log_append_time=lat))]))
    offs = [1 + 2 * i for i in range(n)]
    out.append(("v2-gaps", K.encode_v2([(o,) + tuple(r) for o, r in zip(offs, seq)], base_offset=1000, last_offset_delta=offs[-1] + 3,
                                       first_timestamp=min(r[0] for r in seq), compression=(si + 1) % 5, transactional=True,
                                       producer_id=2**63 - 1, producer_epoch=2**15 - 1, base_sequence=2**31 - 1),
                [(2, G.expected_records(2, seq, 1000, offsets=offs))]))
    for magic in (0, 1):
        for codec in G.CODECS[magic]:
            data = K.encode_legacy(magic, seq, compression=codec, base_offset=20)
            exp = G.expected_records(magic, seq, 20)
            out.append((f"v{magic}-{codec}", data, [(magic, exp)] if codec else [(magic, [e]) for e in exp]))
    out.append(("v1-logappend-wrapper", K.encode_legacy(1, seq, compression=1 + si % 3, base_offset=30, timestamp_type=1,
                                                        wrapper_timestamp=lat),
                [(1, G.expected_records(1, seq, 30, log_append_time=lat))]))
    exp = [(o, ts, 1, k, v, h) for (o, ts, _, k, v, h) in G.expected_records(1, seq, 40)]
    out.append(("v1-logappend-plain", K.encode_legacy(1, seq, base_offset=40, timestamp_type=1), [(1, [e]) for e in exp]))
    return out


def run_ref(acc, seq, si):
    for name, data, expected in ref_cases(seq, si):
        acc.count("evaluations")
        acc.count("reference_built")
        acc.distinct("distinct", h64(data))
        refb = K.decode(data)
        got = [(b.magic, [r for r in G.ref_view([b])[0][1]]) for b in refb]
        if got != expected or not all(b.crc_ok for b in refb):
            raise HarnessError(f"reference encoder/decoder disagree with each other on {name}: {_brief(got)} vs {_brief(expected)}")
        for b in refb:
            v = K.validate(b.raw, compacted="gaps" in name or "empty" in name)
            if v:
                raise HarnessError(f"reference encoder output fails the reference validator ({name}): {v}")
        check_readers(acc, data, "reference", {"kind": "buffer", "name": name, "hex": data.hex()}, refb)


def run_control(acc):
    for commit in (True, False):
        for pid, pepoch in itertools.product((0, 1, 2**63 - 1), (0, 2**15 - 1)):
            for base in (0, 2**40):
                data = K.control_batch(base, pid, pepoch, commit, G.T, coordinator_epoch=pepoch & 7)
                acc.count("evaluations")
                acc.count("reference_built")
                acc.distinct("distinct", h64(data))
                b = K.decode(data)[0]
                assert b.is_control and b.is_transactional and b.records[0].key == bytes([0, 0, 0, 1 if commit else 0])
                check_readers(acc, data, "reference", {"kind": "buffer", "name": "control", "hex": data.hex()}, [b])


# ---------------------------------------------------------------- concatenations
def run_concat(acc, names, pool, partial_from=None):
    prefix = b"".join(pool[n] for n in names)
    if partial_from is None:
        acc.count("evaluations")
        acc.count("concatenations")
        acc.distinct("distinct", h64(prefix))
        check_readers(acc, prefix, "concat", {"kind": "buffer", "name": "+".join(names), "hex": prefix.hex()})
        return
    q = pool[partial_from]
    for cut in range(1, len(q)):
        data = prefix + q[:cut]
        acc.count("evaluations")
        acc.count("concatenations_with_partial_tail")
        acc.distinct("distinct", h64(data))
        check_readers(acc, data, "concat+partial",
                      {"kind": "buffer", "name": "+".join(names) + f"+{partial_from}[:{cut}]", "hex": data.hex()})


# ---------------------------------------------------------------- shards
def _limit_sizes(magic, seq):
    """batch_size values around the uncompressed size after each prefix, plus tiny ones."""
    sizes = set()
    size = K.V2_HEADER if magic == 2 else 0
    first_ts = None
    for i, (ts, key, value, headers) in enumerate(seq):
        if magic == 2:
            size += len(K._encode_v2_record(i, 0 if first_ts is None else ts - first_ts, key, value, headers))
        else:
            size += len(K._encode_legacy_msg(magic, i, ts, key, value))
        if first_ts is None:
            first_ts = ts
        sizes.update((size - 1, size, size + 1))
    return sorted(sizes | {0, 1})


def _legacy_seq(seq):
    return [(ts, k, v, []) for ts, k, v, _ in seq]


def _shard(shard):
    acc = Acc()
    kind = shard[0]
    G.impls()
    if kind == "grid":
        _, magic, lo, hi = shard
        seqs = list(G.sequences())[lo:hi]
        done = set()
        for seq in seqs:
            if magic != 2:
                seq = _legacy_seq(seq)
                if repr(seq) in done:
                    continue
                done.add(repr(seq))
            for codec in G.CODECS[magic]:
                for builder in ("cython", "python"):
                    run_build(acc, dict(builder=builder, magic=magic, codec=codec, seq=seq, batch_size=G.BIG))
        if lo == 0:
            acc.sample({"case": "grid", "magic": magic, "sequence": _brief(seqs[1] if len(seqs) > 1 else seqs[0], 160)})
    elif kind == "limits":
        _, magic, lo, hi = shard
        seqs = list(G.sequences())[lo:hi]
        done = set()
        for seq in seqs:
            if not seq:
                continue
            if magic != 2:
                seq = _legacy_seq(seq)
                if repr(seq) in done:
                    continue
                done.add(repr(seq))
            for bs in _limit_sizes(magic, seq):
                for codec in (0, 1):
                    for builder in ("cython", "python"):
                        acc.count("batch_size_cases")
                        run_build(acc, dict(builder=builder, magic=magic, codec=codec, seq=seq, batch_size=bs))
    elif kind == "producer":
        _, txn, pid = shard
        for si, seq in enumerate([[]] + G.small_sequences()):
            for pepoch, bseq, codec, builder, set_state in itertools.product(PEPOCH, BSEQ, G.CODECS[2], ("cython", "python"), (0, 1)):
                acc.count("producer_field_cases")
                run_build(acc, dict(builder=builder, magic=2, codec=codec, seq=seq, batch_size=G.BIG, txn=txn, pid=pid,
                                    pepoch=pepoch, bseq=bseq, set_state=set_state))
    elif kind == "ref":
        _, lo, hi = shard
        for si, seq in list(enumerate(G.sequences()))[lo:hi]:
            run_ref(acc, seq, si)
        if lo == 0:
            run_control(acc)
    elif kind == "concat":
        _, first, maxlen = shard
        pool = dict(G.concat_pool())
        names = list(pool)
        for L in range(1, maxlen + 1):
            for rest in itertools.product(names, repeat=L - 1):
                run_concat(acc, (first,) + rest, pool)
    elif kind == "partial":
        _, first, maxlen = shard
        pool = dict(G.concat_pool())
        names = list(pool)
        for L in range(1, maxlen + 1):
            for rest in itertools.product(names, repeat=L - 1):
                for q in names:
                    run_concat(acc, (first,) + rest, pool, partial_from=q)
    else:
        raise HarnessError(f"unknown shard {shard}")
    return acc


def shards(ctx):
    nseq = sum(1 for _ in G.sequences())
    out = []
    step = 6
    for lo in range(0, nseq, step):
        out.append(("ref", lo, lo + step))
        for magic in (2, 1, 0):
            out.append(("grid", magic, lo, lo + step))
    for lo in range(0, nseq, step):
        for magic in (2, 1, 0):
            out.append(("limits", magic, lo, lo + step))
    for txn in (0, 1):
        for pid in PID:
            out.append(("producer", txn, pid))
    names = [n for n, _ in G.concat_pool()]
    for n in names:
        out.append(("concat", n, 3))
    for n in names:
        out.append(("partial", n, 2 if ctx.quick else 3))
    only = getattr(ctx, "only", None)
    if only:
        out = [s for s in out if only in s[0]]
    return out


def run(ctx):
    G.impls()
    nseq = sum(1 for _ in G.sequences())
    pool = G.concat_pool()
    ctx.rule = ("record sequences of length 0..3: every position x every field (timestamp, key, value, headers) x every grid value "
                "(timestamps {t,0,t-1,t+2^31+1,2^62}; key/value {None,'',1,63,64,8191,8192 B}; headers {[],one,two,null value,"
                "non-ASCII key}) with the other fields of all records taking 3 background assignments (%d sequences); each x magic "
                "0/1/2 x every codec the format allows (v0: none/gzip/snappy, v1: +lz4, v2: +zstd) x {compiled, pure-Python} builder, "
                "each built buffer validated structurally and decoded by {compiled, pure-Python, reference} readers; batch_size in "
                "{S-1,S,S+1 for the uncompressed size S after every prefix} + {0,1} x codec {none,gzip}; v2 producer fields "
                "transactional{0,1} x id{-1,0,2^63-1} x epoch{-1,0,2^15-1} x sequence{-1,0,2^31-1} x 5 codecs x ctor/set_producer_state; "
                "reference-built buffers per sequence (all codecs, LogAppendTime, compaction gaps, empty batch, control batches) read "
                "by both readers; every concatenation of 1..3 of %d small batches (all magics, plain/compressed, library- and "
                "reference-built) and every concatenation of 1..%d followed by every proper prefix of every pool batch; "
                "distinct = distinct (builder case | buffer)" % (nseq, len(pool), 2 if ctx.quick else 3))
    ctx.bounds = {"max_records": 3, "value_sizes": [0, 1, 63, 64, 8191, 8192], "sequences": nseq, "concat_len": 3,
                  "concat_pool": len(pool), "partial_prefix_len": 2 if ctx.quick else 3}
    ctx.assumptions += [
        "reference = vf.krecords, written from the Kafka format definition and self-tested against broker-captured bytes in "
        "aiokafka's tests (python -m vf.krecords)",
        "compression primitives (zlib, cramjam) are trusted; pure-Python implementation = _...Py classes with the pure-Python "
        "varint/CRC helpers (AIOKAFKA_NO_EXTENSIONS=1), compiled = aiokafka.record._crecords rebuilt from the working tree",
        "byte-identical output of the two builders is not demanded (empty batches, compress-or-keep-plain, size == batch_size)",
        "magic 0 with lz4 (refused by the library), record counts > 3 and negative timestamps are outside the grid",
    ]
    K._selftest()
    sh = shards(ctx)
    ctx.log(f"{len(sh)} shards, {nseq} sequences")
    ctx.pmap(_shard, sh, chunksize=1)
    ctx.sample({"case": "concat", "pool": [n for n, _ in pool][:6]})


# ---------------------------------------------------------------- replay
def replay(ctx, data):
    G.impls()
    acc = Acc()
    if data.get("kind") == "build":
        case = dict(data)
        case["seq"] = seq_from_json(data["seq"])
        print(f"builder={case['builder']} magic={case['magic']} codec={K.CODEC_NAMES[case['codec']]} batch_size={case['batch_size']} "
              f"txn={case.get('txn', 0)} pid={case.get('pid', -1)} epoch={case.get('pepoch', -1)} seq={case.get('bseq', -1)}")
        for i, r in enumerate(case["seq"]):
            print(f"  record {i}: {_brief(r, 200)}")
        built, info = build_case(acc, case)
        if built is not None:
            print(f"  built {len(built)} bytes: {built[:160].hex()}{'...' if len(built) > 160 else ''}")
            check_built(acc, case, built, info)
    elif data.get("kind") == "buffer":
        buf = bytes.fromhex(data["hex"])
        print(f"buffer {data.get('name')} ({len(buf)} bytes): {buf[:200].hex()}{'...' if len(buf) > 200 else ''}")
        for b in K.decode(buf):
            print(f"  reference: magic={b.magic} base={b.base_offset} next={b.next_offset} crc_ok={b.crc_ok} "
                  f"records={_brief([(r.offset, r.timestamp, r.key, r.value, r.headers) for r in b.records], 240)}")
        for name, impl in G.impls().items():
            try:
                print(f"  {name}: {_brief(G.strip_checksum(G.read_all(impl, buf)), 400)}")
            except Exception as e:  # noqa: BLE001
                print(f"  {name}: raised {type(e).__name__}: {e}")
        check_readers(acc, buf, "replay", data)
    else:
        print("unknown replay data", data)
        return 1
    for v in acc.violations:
        print(f"VIOLATION oracle={v['oracle']} sig={v['sig']}\n  {v['msg']}")
    return 1 if acc.violations else 0
