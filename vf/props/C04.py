"""C04 - committed offsets never pass undelivered records; at-least-once across crash / stop / rebalance.

Real group AIOKafkaConsumers with auto-commit (and a task calling commit() without arguments) against the simulated
coordinator (vf.scen_group) while records keep arriving.  Oracles (vf.oracles_group.check_c04): for every OffsetCommit
at the instant it is written, every visible record between the member's start position and the committed offset had
already been handed to that member's application; once the environment is quiet every visible record has been delivered
to some member; a record delivered again lies at or above the committed offset its owner was given.
"""
from vf import group_catalog as gc

LEVEL = "model_checking"


def scenarios(ctx):
    quick = ctx.quick
    out = []
    Q = [{"r": 1}, {"f": 1}, {"k": 1}, {"p": 1}]
    # thorough: pairs of deviations. A pair costs ~2*10^5 group executions (~20 ms each) per scenario, so the fault pairs go on
    # the central scenario only and the others get the cheaper pairs
    T = Q + [{"r": 1, "f": 1}, {"k": 1, "r": 1}, {"r": 2}]
    T2 = Q + [{"r": 2}]
    B = Q if quick else T2
    e = gc.errs(membership=True)
    tail = dict(h_conv=5.5, stable=0.5)
    out.append(("late-joiner", gc.two_members(errs=e, **tail), Q if quick else T))
    out.append(("late-joiner-app", gc.two_members(errs=e, baseline="app", **tail), B))
    out.append(("leaver", gc.two_members(errs=e, members=[dict(topics=["t"], assignors=["range"]),
                                                          dict(topics=["t"], assignors=["range"], start=0.4, stop=1.7)], **tail), B))
    out.append(("commit-task", gc.two_members(errs=e, members=[dict(topics=["t"], assignors=["range"], commit_after_poll=True),
                                                               dict(topics=["t"], assignors=["range"], start=1.0, commit_after_poll=True)], **tail), B))
    out.append(("manual-commit-only", gc.two_members(errs=e, members=[dict(topics=["t"], assignors=["range"], commit_after_poll=True, auto_commit=False),
                                                                      dict(topics=["t"], assignors=["range"], start=1.0, commit_after_poll=True, auto_commit=False)], **tail), Q))
    # a live member is cut off long enough to be evicted, the other member owns and commits its partition meanwhile, then the
    # partition heals and the member rejoins and is handed the same partitions as before
    out.append(("evicted-and-back", gc.two_members(errs=e, feed=[0.3, 14], explore_until=4.6, isolate=[0, 0.8, 3.6], kill=False, coord_move=False,
                                                   members=[dict(topics=["t"], assignors=["range"]), dict(topics=["t"], assignors=["range"], start=0.2)],
                                                   **tail), [{"r": 1}] if quick else [{"r": 1}, {"f": 1}, {"p": 1}]))
    out.append(("batch-polls",gc.two_members(errs=e, poll_max_records=None, feed=[0.2, 8], **tail), Q))
    # a consumer without a group that subscribes by topic (it assigns itself every partition): the partition count grows, the
    # new assignment must get positions and every record must still be delivered
    out.append(("groupless-subscribe-growth", gc.two_members(errs={}, fault_apis=["Fetch", "ListOffsets", "Metadata"], kill=False, coord_move=False,
                                                             topics={"t": 1}, grow_at=[1.0, "t", 3], metadata_max_age_ms=400, feed=[0.3, 8],
                                                             members=[dict(group=False, topics=["t"])], faults=["drop-before", "drop-after"],
                                                             **dict(tail, h_conv=7.0)), [{"r": 1}, {"f": 1}]))
    # a member killed between any two loop iterations (not only when every task is waiting)
    out.append(("kill-mid-cascade", gc.two_members(errs=e, k_mid=True, coord_move=False, explore_until=1.8 if quick else 2.6, **tail), [{"k": 1}]))
    if not quick:
        out.append(("three", gc.two_members(errs=e, topics={"t": 3}, members=[dict(topics=["t"], assignors=["roundrobin"]),
                                                                              dict(topics=["t"], assignors=["roundrobin"], start=0.6),
                                                                              dict(topics=["t"], assignors=["roundrobin"], start=1.2)], **tail), Q))
        out.append(("sticky", gc.two_members(errs=e, members=[dict(topics=["t"], assignors=["sticky"]),
                                                              dict(topics=["t"], assignors=["sticky"], start=1.0)], **tail), Q))
    return out


def run(ctx):
    ctx.rule = ("every schedule of environment events (deliveries, timers incl. the auto-commit timer, faults on commit/heartbeat/join/sync "
                "replies, coordinator move, member kill at every choice point) whose deviation counts fit a budget vector, on the real "
                "consumers while an outside producer keeps appending records")
    ctx.assumptions += ["simulated group coordinator follows DESIGN Appendix A; committed offsets survive a coordinator move",
                        "auto_offset_reset=earliest", "deviations placed before explore_until; then a quiet tail"]
    gc.run_catalog(ctx, "C04", ("c04",), scenarios(ctx))


def replay(ctx, data):
    return gc.replay(data)
