"""C06 - group membership converges and is not disturbed by the member itself.

Real group AIOKafkaConsumers (coordinator, heartbeat, fetcher, client, connections) on one virtual-time loop against
the simulated group coordinator (vf.scen_group).  Oracles (vf.oracles_group.check_c06): every JoinGroup written
advertises all configured strategies in order; a successful JoinGroup reply is followed by that member's SyncGroup with
the replied generation/member id unless a fault or subscription change intervened; after the last deviation plus
H = rebalance timeout + 2 x session timeout every live member is in the coordinator's latest generation, assignments
cover the subscribed partitions, heartbeats keep arriving and the generation stays constant for 2 x session timeout.
"""
from vf import group_catalog as gc

LEVEL = "model_checking"


def scenarios(ctx):
    quick = ctx.quick
    out = []
    Q = [{"r": 1}, {"f": 1}, {"k": 1}]
    T = Q + [{"r": 1, "f": 1}, {"r": 2}, {"p": 1}]
    B = Q if quick else T  # the deep vectors, on the central scenarios only (a pair of deviations costs ~10^5 group executions per scenario)
    B2 = Q if quick else Q + [{"p": 1}, {"r": 2}]
    e_all = gc.errs(membership=True)
    base = dict(errs=e_all, feed=None, records=1, poll_max_records=None)
    # assignor configurations: 1..3 strategies in every order (the JoinGroup construction)
    orders = [["range"], ["roundrobin", "range"], ["range", "roundrobin", "sticky"], ["sticky", "range"], ["sticky", "roundrobin", "range"]]
    if not quick:
        orders += [["roundrobin"], ["sticky"], ["range", "sticky"], ["roundrobin", "sticky", "range"], ["sticky", "range", "roundrobin"]]
    for o in orders:
        members = [dict(topics=["t"], assignors=o), dict(topics=["t"], assignors=o, start=1.0)]
        out.append((f"assignors-{'-'.join(o)}", gc.two_members(members=members, **base), [{"r": 1}] if quick else Q))
    # broker JoinGroup version caps (v4+: MEMBER_ID_REQUIRED)
    for jm in (0, 1, 2, 5):
        out.append((f"join-v{jm}", gc.two_members(join_max=jm, **base), B if jm == 5 else B2))
    # a member leaving gracefully, a single member, three members
    out.append(("leave", gc.two_members(members=[dict(topics=["t"], assignors=["range"]), dict(topics=["t"], assignors=["range"], start=0.5, stop=1.8)], **base), B2))
    out.append(("single", gc.two_members(members=[dict(topics=["t"], assignors=["range"])], **base), B2))
    out.append(("three", gc.two_members(topics={"t": 3}, members=[dict(topics=["t"], assignors=["roundrobin"]),
                                                                 dict(topics=["t"], assignors=["roundrobin"], start=0.6),
                                                                 dict(topics=["t"], assignors=["roundrobin"], start=1.2)], **base), Q))
    out.append(("app-eager", gc.two_members(baseline="app", **base), B2))
    out.append(("hb-rebalance-in-completing", gc.two_members(hb_completing=27, **base), Q))
    out.append(("subscription-change", gc.two_members(topics={"t": 2, "u": 1}, members=[dict(topics=["t"], assignors=["range"], resubscribe=[1.5, ["t", "u"]]),
                                                                                        dict(topics=["t", "u"], assignors=["range"], start=0.7)], **base), Q))
    # rejoin triggers that land while a SyncGroup is in flight: the partition count of a subscribed topic grows just before /
    # during the rebalance caused by the second member (metadata refreshed every 500 ms), topic appearing for a pattern
    for at in ((0.95,) if quick else (0.45, 0.95, 1.05)):
        out.append((f"partition-growth-{at}", gc.two_members(topics={"t": 2}, grow_at=[at, "t", 3], metadata_max_age_ms=500, **base),
                    [{"r": 1}, {"p": 1}, {"f": 1}] if quick else [{"r": 1, "p": 1}, {"r": 2}, {"f": 1}]))
    # the periodic metadata refresh may start at any instant: refresh injected (budget x) while a JoinGroup/SyncGroup is in flight,
    # after the partition count grew (no periodic refresh inside the horizon: coverage is demanded for the partitions some member knows)
    out.append(("growth-refresh-in-rebalance", gc.two_members(topics={"t": 2}, grow_at=[0.5, "t", 3], metadata_max_age_ms=60000, md_refresh=True,
                                                              **dict(base, kill=False, coord_move=False)), [{"x": 1, "r": 1}]))
    # the leader has no metadata for a topic only the joining member subscribes to; metadata refreshes injected during the join
    out.append(("leader-lacks-topic", gc.two_members(topics={"t": 2, "u": 1}, metadata_max_age_ms=60000, md_refresh=True,
                                                     members=[dict(topics=["t"], assignors=["range"]), dict(topics=["t", "u"], assignors=["range"], start=0.7)],
                                                     **dict(base, kill=False, coord_move=False)), [{"x": 1, "r": 1}]))
    out.append(("pattern-new-topic", gc.two_members(topics={"ta": 1}, new_topic_at=[0.95, "tb", 2], metadata_max_age_ms=500,
                                                    members=[dict(pattern="^t.*", assignors=["range"]),
                                                             dict(pattern="^t.*", assignors=["range"], start=1.0)], **base), [{"r": 1}, {"p": 1}]))
    return out


def run(ctx):
    ctx.rule = ("every schedule of environment events (deliveries per connection, timers, faults on group requests/replies incl. every "
                "coordinator error code, coordinator move with/without state, member kill) whose deviation counts fit a budget vector, "
                "placed during the first virtual seconds of a multi-member run on the real consumers; then a quiet tail")
    ctx.assumptions += ["simulated group coordinator follows DESIGN Appendix A", "request_timeout_ms above the rebalance timeout",
                        "deviations are placed only before explore_until; the tail is fault-free (bounded liveness horizon)"]
    gc.run_catalog(ctx, "C06", ("c06",), scenarios(ctx))


def replay(ctx, data):
    return gc.replay(data)
