"""C12 - responses reach exactly their requests; connection failure fails all waiters.

A real AIOKafkaConnection runs on a MemTransport under the virtual-time loop.  The environment is a
scripted peer.  Every *schedule* over the alphabet {issue next request, feed the response stream up
to the next cut, advance the clock, cancel waiter i, EOF, reset} within stated bounds is executed
from scratch and compared, after every action, with a small reference model of what each waiter
must have observed.
"""
import asyncio
import collections
import struct

from vf.runner import Acc, h64
from vf.simloop import SimLoop, running

LEVEL = "model_checking"

TYPES = "HFDL"  # Heartbeat v1, FindCoordinator v1, DeleteRecords v2 (flexible header), ListGroups v1
API = {"H": 12, "F": 10, "D": 21, "L": 16}
VERSIONS = [(12, 1, 1), (10, 1, 1), (21, 2, 2), (16, 1, 1), (18, 0, 0)]
TIMEOUT = 1.0


def _request(t):
    from aiokafka.protocol.admin import DeleteRecordsRequest, ListGroupsRequest
    from aiokafka.protocol.coordination import FindCoordinatorRequest
    from aiokafka.protocol.group import HeartbeatRequest

    if t == "H":
        return HeartbeatRequest("g", 1, "m")
    if t == "F":
        return FindCoordinatorRequest("g", 0)
    if t == "D":
        return DeleteRecordsRequest([("t", [(0, 1)])], 1000)
    return ListGroupsRequest()


def _header(t, corr):
    return struct.pack(">i", corr) + (b"\x00" if t == "D" else b"")


def _body(t, tag):
    if t == "H":
        return struct.pack(">ih", tag, 0)
    if t == "F":
        return struct.pack(">ihh", tag, 0, 0) + struct.pack(">ih", 1, 1) + b"h" + struct.pack(">i", 9092)
    if t == "D":
        return struct.pack(">i", tag) + b"\x01\x00"
    return struct.pack(">ihi", tag, 0, 0)


def _frame(payload):
    return struct.pack(">i", len(payload)) + payload


class Peer:
    def __init__(self):
        self.inbuf = bytearray()
        self.frames = []
        self.tr = None
        self.client_closed = False

    async def connect(self, loop, host, port):
        return self

    def attach(self, tr):
        self.tr = tr

    def on_client_bytes(self, data):
        self.inbuf += data
        while len(self.inbuf) >= 4:
            (n,) = struct.unpack_from(">i", self.inbuf)
            if len(self.inbuf) < 4 + n:
                break
            self.frames.append(bytes(self.inbuf[4:4 + n]))
            del self.inbuf[:4 + n]

    def on_client_close(self):
        self.client_closed = True


class Model:
    """Reference: what a correct connection shows its waiters."""

    def __init__(self, types):
        self.types = types
        self.queue = collections.deque()
        self.status = {}
        self.deadline = {}
        self.corr = {}
        self.failed = False
        self.buf = bytearray()

    def issue(self, i, corr, now):
        self.corr[i] = corr if corr is not None else 0
        if self.failed:
            self.status[i] = "connerr"
            return
        self.queue.append(i)
        self.status[i] = "pending"
        self.deadline[i] = now + TIMEOUT

    def fail(self):
        self.failed = True
        for i, s in self.status.items():
            if s == "pending":
                self.status[i] = "connerr"
        self.queue.clear()
        self.buf.clear()

    def feed(self, data):
        if self.failed:
            return
        self.buf += data
        while not self.failed and len(self.buf) >= 4:
            (n,) = struct.unpack_from(">i", self.buf)
            if n < 0:
                self.fail()
                return
            if len(self.buf) < 4 + n:
                return
            fr = bytes(self.buf[4:4 + n])
            del self.buf[:4 + n]
            self.frame(fr)

    def frame(self, fr):
        if not self.queue:
            self.fail()
            return
        i = self.queue[0]
        t = self.types[i]
        hl = 5 if t == "D" else 4
        if len(fr) < hl:
            self.fail()
            return
        (c,) = struct.unpack_from(">i", fr)
        if c != self.corr[i]:
            self.fail()
            return
        if self.status[i] == "pending":
            body = fr[hl:]
            if len(body) < len(_body(t, 0)):
                self.fail()
                return
            self.status[i] = ("ok", struct.unpack_from(">i", body)[0])
        self.queue.popleft()

    def clock(self, now):
        for i, s in self.status.items():
            if s == "pending" and self.deadline[i] < now:
                self.status[i] = "timeout"

    def cancel(self, i):
        if self.status.get(i) == "pending":
            self.status[i] = "cancelled"

    def key(self):
        return (tuple(sorted((i, str(s)) for i, s in self.status.items())), tuple(self.queue), self.failed, len(self.buf))


def _settle(loop, limit=10000):
    n = 0
    while loop._ready or ((w := loop.next_timer()) is not None and w <= loop._vtime):
        loop.run_iteration()
        n += 1
        if n > limit:
            raise RuntimeError("connection code does not quiesce")


def _outcome(task):
    import aiokafka.errors as E

    if not task.done():
        return "pending"
    if task.cancelled():
        return "cancelled"
    exc = task.exception()
    if exc is None:
        r = task.result()
        return ("ok", getattr(r, "throttle_time_ms", None))
    if isinstance(exc, asyncio.TimeoutError):
        return "timeout"
    if isinstance(exc, (E.KafkaConnectionError, E.CorrelationIdError)):
        return "connerr"
    return ("exc", type(exc).__name__)


class Run:
    """One execution of one schedule against a fresh real connection."""

    def __init__(self, types, plan, start_corr=0):
        self.types = types
        self.plan = plan
        self.start_corr = start_corr
        self.problems = []

    def execute(self, sched, acc=None, verbose=False):
        from aiokafka.conn import AIOKafkaConnection

        types = self.types
        peer = Peer()
        loop = SimLoop(peer)
        model = Model(types)
        waiters = {}
        wire_corrs = []
        with running(loop):
            conn = AIOKafkaConnection("h", 9092, request_timeout_ms=int(TIMEOUT * 1000))
            ct = loop.create_task(conn.connect())
            _settle(loop)
            (c0,) = struct.unpack_from(">i", peer.frames[0], 4)
            body = struct.pack(">hi", 0, len(VERSIONS)) + b"".join(struct.pack(">hhh", *v) for v in VERSIONS)
            peer.tr.feed(_frame(struct.pack(">i", c0) + body))
            _settle(loop)
            if not ct.done() or ct.exception():
                raise RuntimeError(f"handshake failed: {ct}")
            nreq = 1
            if self.start_corr:
                conn._correlation_id = self.start_corr
            stream = bytearray()  # response bytes produced so far according to the plan
            produced = 0  # number of plan entries materialised into `stream`
            fed = 0

            async def waiter(i):
                return await conn.send(_request(types[i]))

            def materialise(upto):
                nonlocal produced
                while produced < len(self.plan) and len(stream) < upto:
                    stream.extend(self._plan_bytes(self.plan[produced], model))
                    produced += 1

            for act in list(sched) + [("advance", 2 * TIMEOUT + 0.3)]:
                kind = act[0]
                if kind == "issue":
                    i = act[1]
                    before = len(peer.frames)
                    waiters[i] = loop.create_task(waiter(i))
                    _settle(loop)
                    corr = None
                    if len(peer.frames) > before:
                        fr = peer.frames[-1]
                        api_key, ver, corr = struct.unpack_from(">hhi", fr)
                        wire_corrs.append(corr)
                        if api_key != API[types[i]]:
                            self.problems.append(("wire", f"request {i} went out with api key {api_key}"))
                        if not 0 <= corr <= 2**31 - 1:
                            self.problems.append(("corr-range", f"correlation id {corr} outside 0..2^31-1"))
                        if corr in [model.corr[j] for j in model.queue]:
                            self.problems.append(("corr-reuse", f"correlation id {corr} reused while outstanding"))
                    model.issue(i, corr, loop.time())
                    if corr is None and not model.failed:
                        self.problems.append(("wire", f"request {i} was not written to the open connection"))
                elif kind == "feed":
                    upto = act[1]
                    materialise(upto)
                    data = bytes(stream[fed:upto])
                    fed = upto
                    peer.tr.feed(data)
                    _settle(loop)
                    model.feed(data)
                elif kind == "advance":
                    target = loop._vtime + act[1]
                    while True:
                        w = loop.next_timer()
                        if w is None or w > target:
                            break
                        loop.advance_to_next_timer()
                        _settle(loop)
                    loop._vtime = target
                    _settle(loop)
                    model.clock(loop.time())
                elif kind == "cancel":
                    if act[1] in waiters:
                        waiters[act[1]].cancel()
                    _settle(loop)
                    model.cancel(act[1])
                elif kind == "eof":
                    peer.tr.feed_eof()
                    _settle(loop)
                    if not model.failed:
                        model.fail()
                elif kind == "reset":
                    peer.tr.reset()
                    _settle(loop)
                    if not model.failed:
                        model.fail()
                if acc is not None:
                    acc.count("transitions")
                    acc.distinct("states", (self.types, model.key()))
                for i, t in waiters.items():
                    got = _outcome(t)
                    want = model.status[i]
                    if verbose:
                        print(f"   after {act}: waiter {i} real={got} model={want}")
                    if got != want:
                        self.problems.append(("waiter-outcome",
                                              f"after {act}: waiter {i} ({types[i]}) observed {got}, reference says {want}"))
                if self.problems:
                    break
            if not self.problems:
                if model.failed and conn.connected() and not peer.client_closed and conn._reader is not None:
                    self.problems.append(("not-closed", "connection not closed after a protocol failure"))
            conn.close()
            _settle(loop)
            for t in waiters.values():
                if not t.done():
                    t.cancel()
            _settle(loop)
        return self.problems, tuple(sorted((i, str(s)) for i, s in model.status.items()))

    def _plan_bytes(self, entry, model):
        kind = entry[0]
        types = self.types
        if kind == "resp":
            i = entry[1]
            return _frame(_header(types[i], model.corr[i]) + _body(types[i], 100 + i))
        if kind == "wrongcorr":
            i = entry[1]
            return _frame(_header(types[i], (model.corr[i] + 7) % 2**31) + _body(types[i], 100 + i))
        if kind == "truncbody":
            i = entry[1]
            return _frame(_header(types[i], model.corr[i]) + _body(types[i], 100 + i)[:-1])
        if kind == "shorthdr":
            return _frame(b"\x00\x00")
        if kind == "neglen":
            return struct.pack(">i", -1) + b"\x00\x00\x00\x00"
        if kind == "hugelen":
            return struct.pack(">i", 2**31 - 1) + b"\x00" * 8
        if kind == "stale":  # a frame carrying an arbitrary correlation id (duplicate of an old one / unsolicited)
            return _frame(struct.pack(">i", entry[1]) + _body("H", 1))
        raise ValueError(entry)

    def plan_len(self, entry):
        kind = entry[0]
        types = self.types
        if kind in ("resp", "wrongcorr"):
            t = types[entry[1]]
            return 4 + len(_header(t, 0)) + len(_body(t, 0))
        if kind == "truncbody":
            t = types[entry[1]]
            return 4 + len(_header(t, 0)) + len(_body(t, 0)) - 1
        if kind == "shorthdr":
            return 6
        if kind == "neglen":
            return 8
        if kind == "hugelen":
            return 12
        if kind == "stale":
            return 4 + 4 + len(_body("H", 1))
        raise ValueError(entry)

    def needs(self, entry):
        """Index of the request that must have been issued before this plan entry can be produced."""
        if entry[0] in ("resp", "wrongcorr", "truncbody"):
            return entry[1]
        return -1


# ---------------------------------------------------------------------------------------------
# schedule enumeration


def _plans(n):
    """Response plans: the honest one and every single corruption at every frame position.  Frames after a
    corruption that always kills the connection are dropped from the plan (nothing after it is observable)."""
    honest = [("resp", i) for i in range(n)]
    out = [("honest", honest)]
    for k in range(n):
        out.append((f"wrongcorr@{k}", honest[:k] + [("wrongcorr", k)]))
        out.append((f"truncbody@{k}", honest[:k] + [("truncbody", k)] + honest[k + 1:]))
        out.append((f"dup@{k}", honest[:k + 1] + [("resp", k)]))
        out.append((f"shorthdr@{k}", honest[:k] + [("shorthdr",)]))
        out.append((f"neglen@{k}", honest[:k] + [("neglen",)]))
        out.append((f"hugelen@{k}", honest[:k] + [("hugelen",)] + honest[k:k + 1]))
    out.append((f"unsolicited@{n}", honest + [("stale", 12345)]))
    out.append(("unsolicited@0", [("stale", 1)] + honest[:1]))
    return out


def _cut_points(run, fine):
    """Positions at which the response stream may be cut: frame ends, plus (fine) inside the size
    field, inside the header and inside the body of every frame."""
    pos = 0
    cuts = []
    for entry in run.plan:
        ln = run.plan_len(entry)
        inner = []
        if fine:
            inner = sorted({pos + 2, pos + 4 + 2, pos + ln - 1} - {pos, pos + ln})
        cuts.append((run.needs(entry), [c for c in inner if pos < c < pos + ln] + [pos + ln]))
        pos += ln
    return cuts, pos


def _interleavings(run, n, bounds):
    """DFS over complete schedules (stateless: each is later executed from scratch)."""
    cuts, total = _cut_points(run, bounds["fine"])
    flat = []  # (position, needs)
    for needs, ps in cuts:
        for p in ps:
            flat.append((p, needs))
    out = []

    def rec(sched, issued, ci, adv, can, term):
        extended = False
        if issued < n and not term:
            extended = True
            rec(sched + [("issue", issued)], issued + 1, ci, adv, can, term)
        if ci < len(flat) and flat[ci][1] < issued and not term:
            extended = True
            rec(sched + [("feed", flat[ci][0])], issued, ci + 1, adv, can, term)
        if adv < bounds["advances"] and issued > 0 and not term and sched and sched[-1][0] != "advance":
            extended = True
            rec(sched + [("advance", 0.6)], issued, ci, adv + 1, can, term)
        if can < bounds["cancels"] and not term:
            for i in range(issued):
                if not any(a == ("cancel", i) for a in sched):
                    extended = True
                    rec(sched + [("cancel", i)], issued, ci, adv, can + 1, term)
        if bounds["terminals"] and not term and issued > 0:
            for tkind in ("eof", "reset"):
                # after a terminal only further issues are explored (they must fail fast)
                rec(sched + [(tkind,)], issued, len(flat), adv, can, True)
        if term and issued < n:
            rec(sched + [("issue", issued)], issued + 1, ci, adv, can, term)
            extended = True
        if not extended or (term and issued == n):
            out.append(sched)

    rec([], 0, 0, 0, 0, False)
    # de-duplicate (terminal branches may repeat)
    seen = set()
    uniq = []
    for s in out:
        k = tuple(s)
        if k not in seen:
            seen.add(k)
            uniq.append(s)
    return uniq


def _types_for(n, variant):
    return "".join(TYPES[(i + variant) % 4] for i in range(n))


def _tasks(ctx):
    tasks = []
    quick = ctx.quick
    # A: interleavings of issue / feed / advance / cancel / eof / reset with every single corruption
    for n in (1, 2, 3) if quick else (1, 2, 3, 4):
        for variant in range(4 if n <= 2 else 2):
            types = _types_for(n, variant)
            for pname, plan in _plans(n):
                honest = pname == "honest"
                if quick:
                    b = {"fine": n == 1 or (n == 2 and honest and variant == 0), "advances": 2 if n <= 2 else 1,
                         "cancels": 1, "terminals": n == 1 or honest}
                else:
                    b = {"fine": n == 1 or (n == 2 and variant < 2), "advances": 2 if n <= 3 else 1, "cancels": 2 if n <= 2 else 1,
                         "terminals": n <= 2 or honest}
                tasks.append(("A", types, pname, plan, b, 0))
    # B: fragmentation - all requests first, honest stream cut into <=3 chunks at every pair of positions, and byte by byte
    for n in (1, 2, 3, 4) if quick else (1, 2, 3, 4, 5, 6, 8):
        for variant in range(2 if quick else 4):
            tasks.append(("B", _types_for(n, variant), "honest", [("resp", i) for i in range(n)], None, 0))
    # C: EOF / reset after every byte of the honest stream
    for n in (1, 2, 3, 4) if quick else (1, 2, 4, 8):
        tasks.append(("C", _types_for(n, 1), "honest", [("resp", i) for i in range(n)], None, 0))
    # D: correlation counter wrap
    for start in (2**31 - 3, 2**31 - 2, 2**31 - 1):
        tasks.append(("B", _types_for(4, 0), "honest", [("resp", i) for i in range(4)], None, start))
        tasks.append(("A", _types_for(3, 2), "honest", [("resp", i) for i in range(3)],
                      {"fine": False, "advances": 1, "cancels": 1, "terminals": False}, start))
    return [t + (k,) for k, t in enumerate(tasks)]


def _schedules(task):
    fam, types, pname, plan, b, start, _k = task
    n = len(types)
    run = Run(types, plan, start)
    if fam == "A":
        return _interleavings(run, n, b)
    issue = [("issue", i) for i in range(n)]
    total = sum(run.plan_len(e) for e in plan)
    scheds = []
    if fam == "B":
        scheds.append(issue + [("feed", total)])
        for i in range(1, total):
            scheds.append(issue + [("feed", i), ("feed", total)])
            for j in range(i + 1, total):
                scheds.append(issue + [("feed", i), ("feed", j), ("feed", total)])
        scheds.append(issue + [("feed", i) for i in range(1, total + 1)])
    else:
        for k in range(0, total + 1):
            for tk in ("eof", "reset"):
                s = issue + ([("feed", k)] if k else []) + [(tk,)]
                scheds.append(s)
                if k and k % 7 == 0:
                    scheds.append(issue + [("feed", i) for i in range(1, k + 1)] + [(tk,)])
    return scheds


def _run_task(task):
    fam, types, pname, plan, b, start, _k = task
    acc = Acc()
    scheds = _schedules(task)
    for s in scheds:
        run = Run(types, plan, start)
        problems, outcome = run.execute(s, acc)
        acc.count("evaluations")
        acc.distinct("distinct", (types, pname, start, tuple(s)))
        acc.distinct("outcomes", outcome)
        for oracle, msg in problems[:1]:
            sig = {"family": fam, "plan": pname.split("@")[0], "what": oracle}
            acc.violation(oracle, sig, {"types": types, "plan": plan, "start": start, "schedule": s},
                          f"types={types} plan={pname} start_corr={start}: {msg}")
    if scheds and fam == "A" and pname.startswith("wrongcorr") and len(types) == 2:
        acc.sample({"types": types, "plan": pname, "schedule": scheds[len(scheds) // 2]})
    return acc


def run(ctx):
    ctx.rule = ("every schedule over {issue next request, feed response stream to next cut, advance clock 0.6 s, "
                "cancel waiter i, EOF, reset} within the per-family bounds, each executed from scratch on a real "
                "AIOKafkaConnection and compared after every action with a reference model; families: A interleavings "
                "x every single corruption (wrong/duplicate/unsolicited correlation id, truncated body, short header, "
                "negative/huge frame length) at every frame position; B every cut of the honest stream into <=3 chunks "
                "+ byte-by-byte; C EOF/reset after every byte; D correlation counter started at 2^31-3..2^31-1; "
                "distinct = distinct schedules")
    ctx.assumptions += [
        "FindCoordinator v0 'Kafka 0.8.2 quirk' (reply with correlation id 0 accepted) is deliberate and not exercised",
        "short writes on the client->broker direction are not modelled (asyncio buffers writes)",
        "timeouts are driven through AIOKafkaConnection.send's own request timeout",
    ]
    ctx.bounds = {"requests": "1..3 (A), 1..4 (B, C)" if ctx.quick else "1..4 (A), 1..8 (B, C)",
                  "advances": 2, "cancels": 1 if ctx.quick else 2, "chunks": 3}
    tasks = _tasks(ctx)
    ctx.pmap(_run_task, tasks)
    if len(ctx.sets.get("outcomes", ())) < 10:
        ctx.violation("vacuity", {"what": "vacuity"}, {}, "fewer than 10 distinct waiter-outcome vectors were observed")


def replay(ctx, data):
    run = Run(data["types"], [tuple(e) for e in data["plan"]], data.get("start", 0))
    sched = [tuple(a) for a in data["schedule"]]
    print("types", data["types"], "plan", data["plan"], "schedule", sched)
    p1, o1 = run.execute(sched, verbose=True)
    run2 = Run(data["types"], [tuple(e) for e in data["plan"]], data.get("start", 0))
    p2, o2 = run2.execute(sched)
    if (p1, o1) != (p2, o2):
        print("HARNESS-ERROR: replay not deterministic")
        return 2
    for p in p1:
        print("PROBLEM", p)
    return 1 if p1 else 0
