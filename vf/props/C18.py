"""C18 - SCRAM login proves the password and authenticates the server.

Bounded exhaustive enumeration.  The real `ScramAuthenticator` (built the way
`AIOKafkaConnection.authenticator_scram` builds it, driven through `step()`) talks to an
independent RFC 5802 / RFC 7677 server (vf/scram_ref.py).  A tamperer sits on the wire.

Oracles (exactly what the property states):
  client_messages_valid  honest wire: the reference server parses both client messages as valid
                         RFC 5802 messages, finds the configured user and verifies the proof.
  honest_completes       honest wire (server nonce non-empty): the client finishes the login.
  no_completion_without_proof_of_password
                         any wire: if the client finishes the login then (a) the nonce in the
                         server-first message it saw starts with its own nonce and (b) the
                         server-final message it saw carries the ServerSignature that RFC 5802
                         derives from the password, the announced salt / iteration count and the
                         three messages actually exchanged.  Otherwise step() must have raised.
"""
import asyncio
import base64
import itertools
import types
import uuid as _uuid

from vf import scram_ref as R
from vf.runner import Acc, HarnessError, h64

LEVEL = "exploration"

RFC7677_SUFFIX = "%hvYDpWUa2RaTCAfuxFIlj)hNlF$k0"

# ------------------------------------------------------------------ input grid
USERS_QUICK = ["alice", "al,ice", "al=ice", ",=al=,ice=2C=3D", "Ünï-пользователь-用户"]
USERS_MORE = ["=", ",", "a", "u" * 200 + ",="]
PASSWORDS_QUICK = ["pencil", "pässwörd-пароль-密码", "pa,ss=wo,rd"]
PASSWORDS_MORE = ["x", "long-" + "0123456789abcdef" * 10]  # longer than the HMAC block of both hashes
MECHS = ["SCRAM-SHA-256", "SCRAM-SHA-512"]
SUFFIXES_QUICK = [RFC7677_SUFFIX, "3", "=", "r=x=s=y=i=1"]
SUFFIXES_MORE = ["Z" * 256]
BASE = {"mech": "SCRAM-SHA-256", "user": "alice", "password": "pencil", "salt": bytes(range(1, 17)).hex(),
        "iters": 1, "suffix": "3"}


def _salt(n, pattern):
    if pattern == "mix":
        return bytes((i * 37 + 11) & 0xFF for i in range(n))
    if pattern == "high":
        return bytes(0x80 | ((i * 29 + 0x7F) & 0x7F) for i in range(n))
    return bytes(n)  # "zero": NUL bytes


def bases(ctx):
    """Base cases (credentials x salt x iteration count x mechanism x server nonce), simplest first."""
    quick = ctx.quick
    users = USERS_QUICK + ([] if quick else USERS_MORE)
    pws = PASSWORDS_QUICK + ([] if quick else PASSWORDS_MORE)
    sufs = SUFFIXES_QUICK + ([] if quick else SUFFIXES_MORE)
    salts = [_salt(16, "mix"), _salt(1, "mix"), _salt(1, "high"), _salt(16, "high"), _salt(64, "mix"),
             _salt(64, "high"), _salt(2, "high"), _salt(3, "zero")]
    out = []
    seen = set()
    seen5 = set()

    def add(mech, user, pw, salt, iters, suf, depth):
        key = (mech, user, pw, salt, iters, suf)
        if key in seen:
            return
        seen.add(key)
        first = (mech, user, pw, salt, iters) not in seen5
        seen5.add((mech, user, pw, salt, iters))
        out.append({"mech": mech, "user": user, "password": pw, "salt": salt.hex(), "iters": iters, "suffix": suf,
                    "depth": depth, "empty_nonce_too": first})

    # slice A: full cross product
    for iters in ((1, 2, 4096) if quick else (1, 2, 4096, 20000)):
        for salt, user, pw, mech in itertools.product(salts, users, pws, MECHS):
            for k, suf in enumerate(sufs):
                if iters == 20000 and k > 1:
                    continue
                core = user in USERS_QUICK and pw in PASSWORDS_QUICK
                if quick:
                    full = k == 0 and (iters == 1 or (iters == 4096 and user == users[0] and salt == salts[0]))
                else:
                    full = (iters <= 2 and k <= 1) or (iters == 4096 and k == 0 and core)
                if full:
                    depth = "full"
                elif (quick and iters >= 4096 and k > 0) or (iters == 20000 and k > 0):
                    depth = "min"
                else:
                    depth = "named"
                add(mech, user, pw, salt, iters, suf, depth)
    # slice B: 20000 iterations in the quick tier on a reduced credential set
    if quick:
        for salt, mech in itertools.product(salts[:3], MECHS):
            for user, pw in ((users[0], pws[0]), (users[3], pws[1]), (users[4], pws[2])):
                add(mech, user, pw, salt, 20000, sufs[0], "named")
    # slice C (thorough): every salt length 1..64 with three byte patterns; a sweep of iteration counts
    if not quick:
        creds = ((users[0], pws[0]), (users[3], pws[1]))
        for n in range(1, 65):
            for pat in ("mix", "high", "zero"):
                for mech in MECHS:
                    for user, pw in creds:
                        add(mech, user, pw, _salt(n, pat), 1, sufs[0], "full")
                        add(mech, user, pw, _salt(n, pat), 4096, sufs[1], "named")
        for iters in (3, 4, 5, 10, 100, 1000, 4095, 4097, 8192, 10000, 16384, 19999):
            for mech in MECHS:
                for user, pw in creds:
                    for salt in salts[:2]:
                        add(mech, user, pw, salt, iters, sufs[0], "named")
    return out


# ------------------------------------------------------------------ the client under test
class _UuidShim:
    """Stands in for the `uuid` module inside aiokafka.conn so that the client nonce is a function of
    the case (deterministic runs and replays)."""

    value = None

    def uuid4(self):
        if self.value is None:
            return _uuid.uuid4()
        return self.value

    def __getattr__(self, name):
        return getattr(_uuid, name)


class _Text:
    def __init__(self, text):
        self.text = text

    def __str__(self):
        return self.text


_SHIM = _UuidShim()


class _Done:
    """Result of the inline executor; awaitable without suspension."""

    def __init__(self, value=None, exc=None):
        self.value, self.exc = value, exc

    def get(self):
        if self.exc is not None:
            raise self.exc
        return self.value

    def __await__(self):
        if False:
            yield None
        return self.get()


class _InlineLoop:
    """`loop.run_in_executor` that runs the function at once (what the default executor does, minus
    the thread); lets millions of exchanges run through BaseSaslAuthenticator.step itself."""

    def run_in_executor(self, executor, fn, *args):
        try:
            return _Done(fn(*args))
        except Exception as e:  # noqa: BLE001 - handed back to the awaiting caller like a future does
            return _Done(exc=e)

    def __getattr__(self, name):
        raise HarnessError(f"authenticator used loop.{name}; the inline loop only provides run_in_executor")


def _drive(aw):
    if isinstance(aw, _Done):
        return aw.get()
    it = aw.__await__()
    try:
        next(it)
    except StopIteration as e:
        return e.value
    raise HarnessError("authenticator.step() suspended on something other than loop.run_in_executor")


def _make_client(case, nonce):
    import aiokafka.conn as conn_mod

    if hasattr(conn_mod, "uuid"):
        if conn_mod.uuid is not _SHIM:
            conn_mod.uuid = _SHIM
    _SHIM.value = nonce
    try:
        holder = types.SimpleNamespace(_loop=_InlineLoop(), _sasl_plain_password=case["password"],
                                       _sasl_plain_username=case["user"], _sasl_mechanism=case["mech"])
        try:
            return conn_mod.AIOKafkaConnection.authenticator_scram(holder)
        except AttributeError as e:
            if "SimpleNamespace" in str(e):
                raise HarnessError(f"authenticator_scram needs more of the connection: {e}") from None
            raise
    finally:
        _SHIM.value = None


def _nonce_for(case, spec, via):
    key = (case["mech"], case["user"], case["password"], case["salt"], case["iters"], case["suffix"],
           _spec_key(spec), via)
    return _uuid.UUID(int=(h64(("a", key)) << 64) | h64(("b", key)), version=4)


def _spec_key(spec):
    return (tuple(spec.get("t1") or ()), tuple(spec.get("t2") or ()), spec.get("final", "server"))


# ------------------------------------------------------------------ the wire (server + tamperer)
def _b64(b):
    return R.b64(b)


def _other_char(ch):
    return "1" if ch == "0" else "0"


class Wire:
    """Reference server plus a tamperer that alters at most one field of one server message."""

    def __init__(self, case, spec):
        self.case = case
        self.spec = spec
        self.salt = bytes.fromhex(case["salt"])
        cred = R.Credentials(case["mech"], case["password"], self.salt, case["iters"])
        self.cred = cred
        self.server = R.ScramServer(case["mech"], {R.saslprep(case["user"]): cred}, case["suffix"])
        self.n = 0
        self.c1 = self.s1 = self.s1p = self.c2 = self.s2 = self.s2p = None
        self.first_error = self.final_error = None
        self.noop = False
        self.transcript = []

    # -- server-first tampering -------------------------------------------------
    def _tamper_first(self):
        t = self.spec.get("t1")
        srv = self.server
        if srv.client_nonce is None:  # client-first refused: a real server answers with an error
            return f"e={self.first_error.code}"
        cn, suf = srv.client_nonce, self.case["suffix"]
        r, s, i = cn + suf, _b64(self.salt), str(self.case["iters"])
        if not t:
            return f"r={r},s={s},i={i}"
        name = t[0]
        arg = t[1] if len(t) > 1 else None
        if name.startswith("nonce-"):
            if name == "nonce-char":
                k = arg % len(cn)
                r = cn[:k] + _other_char(cn[k]) + cn[k + 1:] + suf
            elif name == "nonce-trunc":
                r = cn[: arg % len(cn)] + suf
            elif name == "nonce-trunc-bare":
                r = cn[: arg % len(cn)]
            elif name == "nonce-suffix-first":
                r = suf + cn
            elif name == "nonce-insert":
                k = arg % len(cn)
                r = cn[:k] + "x" + cn[k:] + suf
            elif name == "nonce-upper":
                r = cn.upper() + suf
            elif name == "nonce-reversed":
                r = cn[::-1] + suf
            elif name == "nonce-other":
                r = "".join(_other_char(c) for c in cn) + suf
            elif name == "nonce-missing":
                r = None
            else:
                raise HarnessError(f"unknown tampering {t}")
            if r is not None and r.startswith(cn):
                self.noop = True  # the altered nonce still extends the client's: not a tampering
        elif name.startswith("salt-"):
            salt = bytearray(self.salt)
            if name == "salt-bit":
                k = arg % (8 * len(salt))
                salt[k // 8] ^= 1 << (k % 8)
                s = _b64(bytes(salt))
            elif name == "salt-trunc":
                s = _b64(bytes(salt[:-1]))
            elif name == "salt-extend":
                s = _b64(bytes(salt) + b"\x00")
            elif name == "salt-other":
                s = _b64(bytes(b ^ 0x5A for b in salt))
            elif name == "salt-notb64":
                s = "!!!"
            elif name == "salt-missing":
                s = None
            else:
                raise HarnessError(f"unknown tampering {t}")
        elif name.startswith("iter-"):
            if name == "iter-value":
                i = str(arg)
                if arg == self.case["iters"]:
                    self.noop = True
            elif name == "iter-delta":
                i = str(self.case["iters"] + arg)
            elif name == "iter-double":
                i = str(self.case["iters"] * 2)
            elif name == "iter-text":
                i = arg
            elif name == "iter-missing":
                i = None
            else:
                raise HarnessError(f"unknown tampering {t}")
        else:
            raise HarnessError(f"unknown tampering {t}")
        parts = []
        if r is not None:
            parts.append("r=" + r)
        if s is not None:
            parts.append("s=" + s)
        if i is not None:
            parts.append("i=" + i)
        return ",".join(parts)

    # -- server-final ----------------------------------------------------------
    def _client_view_auth(self, c2):
        bare = self.server.client_first_bare
        return f"{bare},{self.s1p},{c2[: c2.rindex(',p=')]}".encode("utf-8")

    def _final(self, data):
        mode = self.spec.get("final", "server")
        srv = self.server
        try:
            true = srv.client_final(data).decode("utf-8")
        except R.ScramError as e:
            self.final_error = e
            true = f"e={e.code}"
        self.s2 = true
        if mode == "server" or srv.client_first_bare is None:
            return true
        try:
            c2 = data.decode("utf-8")
            c2.rindex(",p=")
        except (UnicodeDecodeError, ValueError):
            return true
        hn = self.cred.hashname
        if mode == "key-client-view":  # a server holding the true ServerKey signs what the client saw
            return "v=" + _b64(R.HMAC(hn, self.cred.server_key, self._client_view_auth(c2)))
        if mode == "key-server-view":  # ... signs what the server sent (a relay altered it afterwards)
            auth = f"{srv.client_first_bare},{srv.server_first},{c2[: c2.rindex(',p=')]}".encode("utf-8")
            return "v=" + _b64(R.HMAC(hn, self.cred.server_key, auth))
        raise HarnessError(f"unknown final mode {mode}")

    def _tamper_final(self, s2, data):
        t = self.spec.get("t2")
        if not t:
            return s2.encode("utf-8")
        name = t[0]
        arg = t[1] if len(t) > 1 else None
        sig = self.server.server_signature
        if sig is None:  # the server did not accept the proof; there is no honest signature to alter
            self.noop = True
            return s2.encode("utf-8")
        case = self.case
        mech, hn = case["mech"], self.cred.hashname
        auth = self.server.auth_message
        n = len(sig)
        if name == "sig-bit":
            k = arg % (8 * n)
            b = bytearray(sig)
            b[k // 8] ^= 0x80 >> (k % 8)
            return ("v=" + _b64(bytes(b))).encode()
        if name == "sig-other-password":
            key = R.server_key(mech, arg, self.salt, case["iters"])
            if arg == case["password"]:
                self.noop = True
            return ("v=" + _b64(R.HMAC(hn, key, auth))).encode()
        if name == "sig-other-salt":
            key = R.server_key(mech, case["password"], bytes(b ^ 0x5A for b in self.salt), case["iters"])
            return ("v=" + _b64(R.HMAC(hn, key, auth))).encode()
        if name == "sig-other-iter":
            key = R.server_key(mech, case["password"], self.salt, case["iters"] + 1)
            return ("v=" + _b64(R.HMAC(hn, key, auth))).encode()
        if name == "sig-replay":  # signature of an earlier session (other client nonce), same credentials
            cn = self.server.client_nonce
            old = auth.decode("utf-8").replace(cn, "".join(_other_char(c) for c in cn))
            return ("v=" + _b64(R.HMAC(hn, self.cred.server_key, old.encode("utf-8")))).encode()
        if name == "sig-echo-proof":
            c2 = data.decode("utf-8")
            return ("v=" + c2[c2.rindex(",p=") + 3:]).encode()
        if name == "sig-client-signature":
            return ("v=" + _b64(R.HMAC(hn, self.cred.stored_key, auth))).encode()
        if name == "sig-server-key":
            return ("v=" + _b64(self.cred.server_key)).encode()
        if name == "sig-trunc":
            return ("v=" + _b64(sig[: arg % n])).encode()
        if name == "sig-extend":
            return ("v=" + _b64(sig + b"\x00")).encode()
        if name == "sig-double":
            return ("v=" + _b64(sig + sig)).encode()
        if name == "sig-zero":
            return ("v=" + _b64(bytes(n))).encode()
        if name == "sig-hex":
            return ("v=" + sig.hex()).encode()
        if name == "sig-garbage":
            return ("v=" + arg).encode("utf-8")
        if name == "sig-b64-drop-last":
            return ("v=" + _b64(sig)[:-1]).encode()
        if name == "err":
            return ("e=" + arg).encode()
        if name == "final-empty":
            return b""
        if name == "final-attr":
            return (arg + "=" + _b64(sig)).encode()
        if name == "final-noattr":
            return _b64(sig).encode()
        if name == "text-bit":  # flip one bit of the server-final text itself
            raw = bytearray(s2.encode("utf-8"))
            k = arg % (8 * len(raw))
            raw[k // 8] ^= 1 << (k % 8)
            return bytes(raw)
        raise HarnessError(f"unknown tampering {t}")

    # -- called with every client message --------------------------------------
    def reply(self, payload):
        self.n += 1
        self.transcript.append(("C", bytes(payload)))
        if self.n == 1:
            self.c1 = bytes(payload)
            try:
                self.s1 = self.server.client_first(self.c1).decode("utf-8")
            except R.ScramError as e:
                self.first_error = e
            self.s1p = self._tamper_first()
            out = self.s1p.encode("utf-8")
        elif self.n == 2:
            self.c2 = bytes(payload)
            s2 = self._final(self.c2)
            out = self.s2p = self._tamper_final(s2, self.c2)
        else:
            out = b""
        self.transcript.append(("S", out))
        return out

    # -- may a correct client finish this login? -------------------------------
    def legit(self):
        """(nonce_ok, signature_ok) judged by the reference from the messages the client saw."""
        if self.s1p is None or self.server.client_nonce is None:
            return False, False
        p = R.parse_server_first(self.s1p)
        first = self.s1p.split(",")[0]
        nonce_ok = first.startswith("r=") and first[2:].startswith(self.server.client_nonce)
        if self.c2 is None or self.s2p is None:
            return nonce_ok, False
        try:
            s2 = self.s2p.decode("utf-8")
            c1 = self.c1.decode("utf-8")
            c2 = self.c2.decode("utf-8")
        except UnicodeDecodeError:
            return nonce_ok, False
        if not s2.startswith("v=") or ",p=" not in c2 or p is None:
            return nonce_ok, False
        want = R.expected_server_signature(self.case["mech"], self.case["password"], c1, self.s1p, c2)
        got = R.b64_tolerant(s2[2:].split(",")[0])
        return nonce_ok, (want is not None and got == want)


# ------------------------------------------------------------------ one login
def run_login(case, spec, via="step"):
    """Run one login of the real client over the wire.  Returns (outcome, wire, exc)."""
    wire = Wire(case, spec)
    nonce = _Text(spec["client_nonce"]) if spec.get("client_nonce") else _nonce_for(case, spec, via)
    if via == "step":
        auth = _make_client(case, nonce)
        payload = None
        for _ in range(4):
            try:
                res = _drive(auth.step(payload))
            except HarnessError:
                raise
            except Exception as e:  # noqa: BLE001 - the client aborting the login
                return "raised", wire, e
            if res is None:
                return "completed", wire, None
            payload = wire.reply(res[0])
        return "wants-more", wire, None
    return _run_handshake(case, wire, nonce, 0 if via == "hs0" else 1)


def _run_handshake(case, wire, nonce, version):
    """The connection's own `_do_sasl_handshake` on a real AIOKafkaConnection object whose two
    network-facing methods (`send`, `_send_sasl_token`) are answered by the wire."""
    import aiokafka.conn as conn_mod
    from aiokafka.protocol import admin

    if hasattr(conn_mod, "uuid") and conn_mod.uuid is not _SHIM:
        conn_mod.uuid = _SHIM

    async def main():
        conn = conn_mod.AIOKafkaConnection(
            "broker.invalid", 9092, security_protocol="SASL_PLAINTEXT", sasl_mechanism=case["mech"],
            sasl_plain_username=case["user"], sasl_plain_password=case["password"])

        async def send(request, expect_response=True):
            name = type(request).__name__
            if name.startswith("SaslHandShake"):
                cls = admin.SaslHandShakeResponse_v1 if version else admin.SaslHandShakeResponse_v0
                return cls(error_code=0, enabled_mechanisms=["PLAIN", "SCRAM-SHA-256", "SCRAM-SHA-512"])
            if name.startswith("SaslAuthenticate"):
                payload = request.build(admin.SaslAuthenticateRequest_v0).sasl_auth_bytes
                return admin.SaslAuthenticateResponse_v0(error_code=0, error_message=None,
                                                         sasl_auth_bytes=wire.reply(payload))
            raise HarnessError(f"unexpected request during SASL handshake: {request!r}")

        async def send_token(payload, expect_response=True):
            out = wire.reply(payload)
            return out if expect_response else None

        conn.send = send
        conn._send_sasl_token = send_token
        _SHIM.value = nonce
        try:
            await conn._do_sasl_handshake()
        finally:
            _SHIM.value = None

    loop = asyncio.new_event_loop()
    try:
        try:
            loop.run_until_complete(main())
        except HarnessError:
            raise
        except Exception as e:  # noqa: BLE001
            return "raised", wire, e
        return "completed", wire, None
    finally:
        loop.run_until_complete(loop.shutdown_default_executor())
        loop.close()


# ------------------------------------------------------------------ tamperings
NONCE_LEN = 32  # the client nonce is a uuid4 in hex; positions are taken modulo the real length


def tamper_specs(case, depth):
    """Every single-field tampering applied to one base case; [] + honest is handled by the caller."""
    nbits = 256 if case["mech"] == "SCRAM-SHA-256" else 512
    nbytes = nbits // 8
    salt_bits = 8 * (len(case["salt"]) // 2)
    it = case["iters"]
    full = depth == "full"
    specs = []
    if depth == "min":  # expensive iteration counts away from the first server nonce: one of each kind
        last = NONCE_LEN - 1
        for t in (["nonce-suffix-first"], ["nonce-char", 0], ["nonce-char", last], ["nonce-trunc", last],
                  ["nonce-trunc-bare", 0]):
            specs.append({"t1": t, "final": "key-client-view"})
        for t in (["salt-bit", 0], ["salt-other"], ["iter-delta", 1], ["iter-value", 1]):
            for mode in ("server", "key-client-view"):
                specs.append({"t1": t, "final": mode})
        for t in (["sig-bit", 0], ["sig-bit", nbits - 1], ["sig-other-password", case["password"] + "x"], ["sig-replay"],
                  ["sig-echo-proof"], ["sig-trunc", 0], ["sig-trunc", nbytes - 1], ["sig-extend"], ["sig-zero"],
                  ["sig-garbage", "!!!!"], ["err", "invalid-proof"], ["final-empty"], ["final-attr", "V"]):
            specs.append({"t2": t})
        return specs
    # --- server-first: nonce.  "key-client-view" = the other side holds the true ServerKey and signs the
    # client's own transcript, so the nonce check is the only thing that can stop the login.
    nonce = [["nonce-suffix-first"], ["nonce-upper"], ["nonce-reversed"], ["nonce-other"], ["nonce-missing"],
             ["nonce-trunc-bare", 0], ["nonce-trunc-bare", NONCE_LEN - 1]]
    pos = range(NONCE_LEN) if full else (0, NONCE_LEN // 2, NONCE_LEN - 1)
    nonce += [["nonce-char", k] for k in pos]
    nonce += [["nonce-trunc", k] for k in pos]
    nonce += [["nonce-insert", k] for k in pos]
    for t in nonce:
        for mode in ("key-client-view", "server"):
            specs.append({"t1": t, "final": mode})
    # --- server-first: salt and iteration count
    salt = [["salt-trunc"], ["salt-extend"], ["salt-other"], ["salt-notb64"], ["salt-missing"]]
    named_bits = sorted({0, salt_bits // 2, salt_bits - 1})
    salt += [["salt-bit", k] for k in named_bits]
    iters = [["iter-delta", 1], ["iter-double"], ["iter-value", 1], ["iter-value", 4096], ["iter-value", 0],
             ["iter-value", -it], ["iter-text", ""], ["iter-text", "x"], ["iter-missing"]]
    if it > 1:
        iters.append(["iter-delta", -1])
    for t in salt + iters:
        for mode in ("server", "key-client-view", "key-server-view"):
            specs.append({"t1": t, "final": mode})
    if full and it <= 2:  # every other salt bit, against the strongest counterpart (true ServerKey, client's transcript)
        specs += [{"t1": ["salt-bit", k], "final": "key-client-view"} for k in range(salt_bits) if k not in named_bits]
    # --- server-final
    final = [["sig-other-password", case["password"] + "x"], ["sig-other-password", "not-the-password"],
             ["sig-other-password", case["password"][:-1]], ["sig-other-salt"], ["sig-other-iter"], ["sig-replay"],
             ["sig-echo-proof"], ["sig-client-signature"], ["sig-server-key"],
             ["sig-trunc", 0], ["sig-trunc", 1], ["sig-trunc", nbytes // 2], ["sig-trunc", nbytes - 1],
             ["sig-extend"], ["sig-double"], ["sig-zero"], ["sig-hex"], ["sig-b64-drop-last"],
             ["sig-garbage", "!!!!"], ["sig-garbage", "*"], ["sig-garbage", "===="], ["sig-garbage", "not base64"],
             ["sig-garbage", "éééé"],
             ["err", "invalid-proof"], ["err", "other-error"], ["err", "unknown-user"],
             ["final-empty"], ["final-attr", "V"], ["final-attr", "p"], ["final-attr", "e"], ["final-noattr"]]
    final += [["sig-bit", k] for k in (range(nbits) if full else sorted({0, 7, nbits // 2, nbits - 8, nbits - 1}))]
    if full and it <= 2:
        textlen = 2 + 4 * ((nbytes + 2) // 3)
        final += [["text-bit", k] for k in range(8 * textlen)]
    for t in final:
        specs.append({"t2": t})
    return specs


def _tamper_class(spec):
    """Coarse name of what was altered (goes into the violation signature)."""
    t = spec.get("t1") or spec.get("t2")
    if not t:
        return "none"
    name = t[0]
    if name in ("nonce-suffix-first", "nonce-insert"):
        return "nonce-client-nonce-not-at-start" if name == "nonce-suffix-first" or t[1] == 0 else "nonce-prefix-altered"
    if name in ("nonce-missing",) or (name == "nonce-trunc-bare" and t[1] == 0):
        return "nonce-absent"
    if name.startswith("nonce-"):
        return "nonce-prefix-altered"
    if name.startswith("salt-"):
        return "salt"
    if name.startswith("iter-"):
        return "iterations"
    if name == "sig-bit":
        return "signature-bit"
    if name in ("sig-trunc", "sig-extend", "sig-double", "sig-hex"):
        return "signature-length"
    if name in ("sig-garbage", "sig-b64-drop-last", "text-bit", "final-noattr", "final-empty", "final-attr"):
        return "final-malformed"
    if name == "err":
        return "final-error-attribute"
    return "signature-wrong-key-or-transcript"


# ------------------------------------------------------------------ judging one login
def _show(b):
    if b is None:
        return None
    if isinstance(b, (bytes, bytearray)):
        try:
            return bytes(b).decode("utf-8")
        except UnicodeDecodeError:
            return "hex:" + bytes(b).hex()
    return b


def _transcript(wire):
    return [f"{who}: {_show(m)}" for who, m in wire.transcript]


def _case_public(case):
    return {k: case[k] for k in ("mech", "user", "password", "salt", "iters", "suffix")}


def _honest_ok(case, via="step"):
    outcome, wire, _ = run_login(case, {}, via)
    return outcome == "completed" and wire.first_error is None and wire.final_error is None and wire.n == 2


def _blame(case):
    """Which single input, put back to its plainest value, makes the honest login work again."""
    if not _honest_ok(BASE):
        return "any-input"
    fields = [f for f in ("user", "password", "mech", "salt", "iters", "suffix")
              if case[f] != BASE[f] and _honest_ok({**case, f: BASE[f]})]
    return "+".join(fields) or "combination"


def judge(acc, case, spec, via, outcome, wire, exc):
    """Apply the three oracles to one finished login."""
    honest = not spec.get("t1") and not spec.get("t2") and spec.get("final", "server") == "server"
    replay = {"case": _case_public(case), "spec": {k: v for k, v in spec.items()}, "via": via}
    tclass = _tamper_class(spec)
    acc.distinct("outcomes", (tclass, spec.get("final", "server"), outcome, type(exc).__name__ if exc else None))
    if honest and case["suffix"] != "":
        # (1) the client's messages are valid and accepted by a server that knows the password
        err = wire.first_error or wire.final_error
        if err is not None:
            msg = "client-first" if wire.first_error is not None else "client-final"
            acc.violation("client_messages_valid",
                          {"kind": "server-refuses", "message": msg, "code": err.code, "blame": _blame(case)}, replay,
                          f"reference RFC 5802 server refuses the {msg} message of an honest login "
                          f"({case['mech']}, user {case['user']!r}): {err}; transcript {_transcript(wire)}")
            return
        if outcome != "completed":
            acc.violation("honest_completes",
                          {"kind": "honest-login-not-completed", "outcome": outcome,
                           "exc": type(exc).__name__ if exc else None, "blame": _blame(case)}, replay,
                          f"honest server accepted the proof but the client did not finish: {outcome} "
                          f"{exc!r} after {wire.n} client messages; transcript {_transcript(wire)}")
            return
    if outcome == "completed":
        nonce_ok, sig_ok = wire.legit()
        if not (nonce_ok and sig_ok):
            acc.violation("no_completion_without_proof_of_password",
                          {"kind": "login-completed", "tamper": tclass, "nonce_extends": nonce_ok,
                           "signature_from_password": sig_ok}, replay,
                          f"client completed the login although "
                          f"{'the server nonce does not extend the client nonce' if not nonce_ok else ''}"
                          f"{' and ' if not nonce_ok and not sig_ok else ''}"
                          f"{'the server-final message does not carry the signature derived from the password' if not sig_ok else ''}"
                          f" [tampering {spec.get('t1') or spec.get('t2')}, final={spec.get('final', 'server')}, "
                          f"{via}]; transcript {_transcript(wire)}")
        elif not honest:
            acc.count("altered_text_same_meaning_completed")  # e.g. unused base64 bits flipped
    elif outcome == "wants-more" and not honest:
        acc.count("client_asked_for_third_round")


def _one(acc, case, spec, via="step"):
    outcome, wire, exc = run_login(case, spec, via)
    if wire.noop:
        acc.count("tamper_noop_skipped")
        return outcome, wire
    acc.count("evaluations")
    acc.count("logins_" + via)
    acc.distinct("distinct", (tuple(sorted(_case_public(case).items())), _spec_key(spec), via))
    if spec.get("t1") or spec.get("t2"):
        acc.count("tampered_logins")
        if outcome == "raised":
            acc.count("tampered_logins_aborted_by_exception")
    else:
        acc.count("honest_logins")
    judge(acc, case, spec, via, outcome, wire, exc)
    return outcome, wire


def _shard(shard):
    kind, items = shard
    acc = Acc()
    if kind == "step":
        for case in items:
            outcome, wire = _one(acc, case, {})
            if outcome != "completed" or wire.server.server_signature is None:
                continue  # honest login already reported; tampering an exchange that never worked says nothing
            for spec in tamper_specs(case, case["depth"]):
                _one(acc, case, spec)
            # a server that adds nothing to the nonce: RFC-violating server, nothing demanded of the client
            if case.get("empty_nonce_too"):
                o, _ = _one(acc, {**case, "suffix": ""}, {})
                acc.count("empty_server_nonce_" + o)
    else:
        for case, via in items:
            outcome, wire = _one(acc, case, {}, via)
            if outcome != "completed" or wire.server.server_signature is None:
                continue
            for spec in tamper_specs(case, "named"):
                _one(acc, case, spec, via)
    return acc


# ------------------------------------------------------------------ known-answer case
def _kat(ctx):
    """RFC 7677 section 3 example played by the real client (client nonce forced to the RFC's)."""
    case = {"mech": "SCRAM-SHA-256", "user": "user", "password": "pencil",
            "salt": base64.b64decode("W22ZaJ0SNY7soEsUEjb6gQ==").hex(), "iters": 4096, "suffix": RFC7677_SUFFIX}
    spec = {"client_nonce": "rOprNGfwEbeRWgbNEkqO"}
    outcome, wire, exc = run_login(case, spec)
    ctx.count("evaluations")
    ctx.count("rfc7677_known_answer")
    ctx.distinct("distinct", ("kat", "rfc7677"))
    if wire.c1 is None or b"r=rOprNGfwEbeRWgbNEkqO" not in wire.c1:
        ctx.note("rfc7677_known_answer", "skipped: client nonce is not taken from uuid.uuid4 in this tree")
        judge(ctx, case, {}, "step", outcome, wire, exc)
        return
    want1 = b"n,,n=user,r=rOprNGfwEbeRWgbNEkqO"
    want2 = b"c=biws,r=rOprNGfwEbeRWgbNEkqO%hvYDpWUa2RaTCAfuxFIlj)hNlF$k0,p=dHzbZapWIk4jUhN+Ute9ytag9zjfMHgsqmmiz7AndVQ="
    judge(ctx, case, {}, "step", outcome, wire, exc)
    # byte identity with the RFC example is recorded, not demanded (the property demands validity and acceptance)
    ctx.note("rfc7677_known_answer", "client messages byte-identical to RFC 7677 section 3"
             if (wire.c1, wire.c2) == (want1, want2) else f"differs: {_show(wire.c1)} / {_show(wire.c2)}")
    ctx.sample({"what": "RFC 7677 example, real client vs reference server", "outcome": outcome,
                "transcript": _transcript(wire)})


# ------------------------------------------------------------------ entry points
def _cost(case):
    runs = {"full": 1100, "named": 150, "min": 28}[case["depth"]]
    if case["depth"] == "full" and case["mech"].endswith("512"):
        runs = 1900
    return runs * (0.06 + case["iters"] / 4096.0 * (1.0 if case["mech"].endswith("256") else 2.0))


def _pack(cases, target):
    shards, cur, c = [], [], 0.0
    for case in cases:
        cur.append(case)
        c += _cost(case)
        if c >= target:
            shards.append(("step", cur))
            cur, c = [], 0.0
    if cur:
        shards.append(("step", cur))
    return shards


def run(ctx):
    bad = R.selftest()
    if bad:
        raise HarnessError(f"reference SCRAM server fails its RFC known answers: {bad}")
    for s in USERS_QUICK + USERS_MORE + PASSWORDS_QUICK + PASSWORDS_MORE + ["not-the-password"]:
        if R.saslprep(s) != s:
            raise HarnessError(f"grid string {s!r} is not a SASLprep fixed point")
    ctx.rule = ("one evaluation = one complete login attempt of the real ScramAuthenticator (through step()) against "
                "the reference RFC 5802 server with at most one field of one server message altered; grid = "
                "usernames x passwords x salts x iteration counts x {SHA-256, SHA-512} x server nonces, and for every "
                "grid point the honest login plus every listed tampering (all signature bits, all client-nonce "
                "positions, all salt bits and all bits of the server-final text at depth 'full'; a named subset "
                "at depth 'named'); plus the same named tamperings through AIOKafkaConnection._do_sasl_handshake "
                "with SaslHandshake v0 and v1; distinct = distinct (grid point, tampering, driver) triples")
    ctx.assumptions += [
        "reference server = own transcription of RFC 5802/7677 (+ SASLprep RFC 4013), validated at start against the "
        "RFC 5802 section 5 and RFC 7677 section 3 exchanges and RFC 6070 PBKDF2 vectors",
        "all grid usernames/passwords are SASLprep fixed points (the library does not normalise; strings that SASLprep "
        "would change are outside the property's quantifier)",
        "empty username is not in the domain (RFC 5802 saslname is 1*char)",
        "a server nonce equal to the client nonce (server adds nothing) and altered base64 text that still denotes the "
        "right signature are run and counted but nothing is demanded of the client for them",
        "client nonce fixed per case by replacing aiokafka.conn.uuid (only the nonce source, not the protocol code)",
        "step() is driven with an inline run_in_executor; the handshake-level runs use a real event loop and executor",
        "connection-level behaviour after the exception (close, retry) is not examined here",
    ]
    bs = bases(ctx)
    ctx.bounds = {"usernames": len({b["user"] for b in bs}), "passwords": len({b["password"] for b in bs}),
                  "salt_lengths": sorted({len(b["salt"]) // 2 for b in bs}),
                  "iteration_counts": sorted({b["iters"] for b in bs}), "mechanisms": MECHS,
                  "server_nonce_suffixes": len({b["suffix"] for b in bs}), "grid_points": len(bs),
                  "grid_points_full_depth": sum(1 for b in bs if b["depth"] == "full")}
    total = sum(_cost(b) for b in bs)
    shards = _pack(bs, max(total / (ctx.jobs * 12), 1.0))
    # handshake-level: the connection's own loop around the authenticator
    hs_cases = []
    for mech in MECHS:
        for user, pw in ((USERS_QUICK[0], PASSWORDS_QUICK[0]), (USERS_QUICK[3], PASSWORDS_QUICK[1])):
            for iters in ((1, 4096) if ctx.quick else (1, 4096, 20000)):
                for via in ("hs0", "hs1"):
                    hs_cases.append(({"mech": mech, "user": user, "password": pw, "salt": _salt(16, "high").hex(),
                                      "iters": iters, "suffix": RFC7677_SUFFIX, "depth": "named"}, via))
    shards += [("hs", [c]) for c in hs_cases]
    ctx.log(f"{len(bs)} grid points, {len(hs_cases)} handshake-level points, {len(shards)} shards")
    ctx.pmap(_shard, shards)
    _kat(ctx)
    # outside the domain, recorded only: the library accepts an empty username, RFC 5802 has saslname = 1*(...)
    o, w, e = run_login(dict(BASE, user="", depth="named"), {})
    ctx.note("observation_empty_username", f"client-first {_show(w.c1)!r}; reference server: {w.first_error}; client {o}")
    # samples: one honest and two tampered transcripts
    case = dict(bs[0])
    for spec in ({}, {"t1": ["nonce-suffix-first"], "final": "key-client-view"}, {"t2": ["sig-bit", 255]}):
        outcome, wire, exc = run_login(case, spec)
        ctx.sample({"case": _case_public(case), "tampering": spec or "none", "outcome": outcome,
                    "exception": repr(exc) if exc else None, "transcript": _transcript(wire)})


def replay(ctx, data):
    case, spec, via = data["case"], data.get("spec") or {}, data.get("via", "step")
    case = dict(case, depth="named")
    outcome, wire, exc = run_login(case, spec, via)
    print(f"case: {case['mech']} user={case['user']!r} password={case['password']!r} salt={case['salt']} "
          f"i={case['iters']} server-nonce-suffix={case['suffix']!r} driver={via}")
    print(f"tampering: {spec.get('t1') or spec.get('t2') or 'none'}  final-mode={spec.get('final', 'server')}")
    for line in _transcript(wire):
        print("  " + line)
    if wire.s1 is not None and wire.s1 != wire.s1p:
        print(f"  (server actually sent: {wire.s1})")
    if wire.s2 is not None and wire.s2p is not None and wire.s2.encode() != wire.s2p:
        print(f"  (server would have answered: {wire.s2})")
    print(f"reference server: client-first {'refused: ' + str(wire.first_error) if wire.first_error else 'ok'}; "
          f"client-final {'refused: ' + str(wire.final_error) if wire.final_error else ('ok' if wire.c2 else 'not received')}")
    print(f"client outcome: {outcome} {exc!r}")
    acc = Acc()
    judge(acc, case, spec, via, outcome, wire, exc)
    for v in acc.violations:
        print(f"VIOLATION oracle={v['oracle']}: {v['msg']}")
    return 1 if acc.violations else 0
