"""C07 - transactions are atomic and follow the transactional protocol order.

Stateless deviation-bounded exhaustive exploration of the real transactional AIOKafkaProducer (producer, sender,
transaction manager, accumulator, client, connections) against the simulated cluster (vf.scen_txn): programs of 1-2
transactions over 1-3 partitions on three brokers, optional send_offsets_to_transaction, commit or abort, 1-2 concurrent
send() tasks; a "kill" family in which the producer is killed at any point and a second instance with the same
transactional id takes over.  Faults (budget f) at any InitProducerId / AddPartitionsToTxn / AddOffsetsToTxn /
TxnOffsetCommit / EndTxn / Produce / FindCoordinator: NOT_COORDINATOR, COORDINATOR_NOT_AVAILABLE,
COORDINATOR_LOAD_IN_PROGRESS, CONCURRENT_TRANSACTIONS, connection drop before / after the broker applied the request,
lost reply (request timeout), coordinator move, slow marker write.  Transaction markers are separate deliverable events.

Oracles (vf.scen_txn): (1) independent read-committed reader over the stored bytes + the group's committed offsets:
commit_transaction() returned => everything visible exactly once; commit never requested (aborted / never ended /
fenced) => nothing visible; otherwise all-or-nothing.  (2) at the instant a request is written: no Produce to a
partition the coordinator has not acknowledged adding in the current transaction, no EndTxn while a record accepted in
that transaction has an unresolved future, no Produce outside begin..end, no batch without the transactional flag.
(3) only retriable faults are offered, so every call of the live producer returns normally within H virtual seconds
after the last fault and every accepted record's future resolves successfully.

The "acl" family leaves the retriable alphabet on purpose (one TOPIC_AUTHORIZATION_FAILED as cluster state at an
AddPartitionsToTxn, healed before the application aborts): it checks oracle (1)/(2) for a *failed* transaction followed
by a new one; oracle (3) is off there.
"""
from vf import explore, scen_txn

LEVEL = "model_checking"

RETRIABLE = ["drop-before", "drop-after", "lose", "err", "coord-move", "delay-markers"]

P_1C = [{"sends": [[0]], "end": "commit"}]
P_1A = [{"sends": [[0]], "end": "abort"}]
P_2T = [{"sends": [[0, 1]], "end": "commit"}, {"sends": [[0]], "end": "abort"}]
P_AC = [{"sends": [[0], [1]], "offsets": True, "end": "abort"}, {"sends": [[0, 1]], "offsets": True, "end": "commit"}]
P_CONC = [{"sends": [[0, 2], [1]], "offsets": True, "end": "commit"}]
P_3P = [{"sends": [[0, 1, 2]], "end": "commit"}, {"sends": [[2], [0]], "end": "commit"}]
P_RACE = [{"sends": [[0], [1]], "race": True, "end": "commit"}]
P_OFFS = [{"sends": [], "offsets": True, "end": "commit"}, {"sends": [[1]], "offsets": True, "end": "abort"}]
P_KILL = [{"sends": [[0, 1]], "offsets": True, "end": "commit"}, {"sends": [[0]], "end": "commit"}]
P_KILL_B = [{"sends": [[0, 1]], "offsets": True, "end": "commit"}]
P_ACL = [{"sends": [[0, 1]], "end": "abort"}, {"sends": [[0]], "end": "commit"}]

ONE = [{"f": 1}, {"r": 1}]
SMALL2 = [{"f": 1, "r": 1}, {"f": 2}, {"r": 2}, {"p": 1}]


def scenarios(ctx):
    quick = ctx.quick
    out = []

    def add(name, program, bounds, app_bounds=None, **kw):
        for base in ("net", "app"):
            params = dict({"mode": "c07", "program": program, "faults": RETRIABLE, "baseline": base}, **kw)
            out.append((f"{name}-{base}", params, (app_bounds or bounds) if base == "app" else bounds))

    if quick:
        add("1p-commit", P_1C, SMALL2)
        add("1p-abort", P_1A, [{"f": 1, "r": 1}, {"p": 1}])
        add("2txn", P_2T, ONE + [{"p": 1}])
        add("abort-commit-offsets", P_AC, ONE)
        add("concurrent-3p-offsets", P_CONC, ONE)
        add("offsets-only", P_OFFS, ONE)
        add("race-end", P_RACE, ONE)
        add("kill", P_KILL, [{"k": 1}, {"f": 1}], kill=True, program_b=P_KILL_B)
        add("kill-1p", P_1C, [{"k": 1, "f": 1}, {"k": 1, "r": 1}], kill=True, program_b=P_1C)
        add("acl", P_ACL, [{"f": 1}, {"r": 1}], faults=["acl-topic"], liveness=False, family="acl")
    else:
        fr = [{"f": 1, "r": 1}, {"r": 2}]
        two = [{"f": 2}, {"f": 1, "r": 1}, {"r": 2}, {"p": 1, "f": 1}, {"p": 1, "r": 1}]
        two2 = [{"f": 2}, {"f": 1, "r": 1}, {"r": 2}, {"p": 1}]
        add("1p-commit", P_1C, two)
        add("1p-abort", P_1A, two)
        add("2txn", P_2T, two2, app_bounds=fr)
        add("abort-commit-offsets", P_AC, fr, app_bounds=[{"r": 2}, {"f": 1}, {"p": 1}])
        add("concurrent-3p-offsets", P_CONC, fr, app_bounds=[{"f": 1, "r": 1}])
        add("3p-2txn", P_3P, ONE + [{"p": 1}])
        add("offsets-only", P_OFFS, two2, app_bounds=fr)
        add("race-end", P_RACE, two)
        add("kill", P_KILL, [{"k": 1, "f": 1}, {"k": 1, "r": 1}], kill=True, program_b=P_KILL_B)
        add("kill-1p", P_1C, [{"k": 1, "f": 1, "r": 1}], app_bounds=[{"k": 1, "f": 1}, {"k": 1, "r": 1}, {"k": 1, "p": 1}],
            kill=True, program_b=P_1C)
        add("acl", P_ACL, [{"f": 1, "r": 1}, {"f": 1, "p": 1}], faults=["acl-topic"], liveness=False, family="acl")
        add("acl-retriable", P_ACL, [{"f": 2}], app_bounds=[{"f": 1}], faults=RETRIABLE + ["acl-topic"], liveness=False, family="acl")
    return out


def run(ctx):
    ctx.rule = ("every schedule of environment events (per-connection FIFO deliveries incl. transaction markers, application gates, "
                "timers, faults, kill) whose deviation counts (r reorderings, p mid-cascade injections, f faults, k kills) fit one "
                "of the scenario's budget vectors, around the net-eager and app-eager baselines, each executed on the real producer")
    ctx.assumptions += [
        "simulated transaction coordinator / partition leaders follow DESIGN Appendix A and E4",
        "fault alphabet limited to the retriable faults of the property (acl family: one authorization failure as cluster state)",
        "InitProducerId and its coordinator lookup are explored; the ApiVersions/Metadata bootstrap before them is not",
        "bounded liveness: horizon %.1f virtual s per call after the later of its start and the last fault" % scen_txn.H_CALL,
    ]
    only = getattr(ctx, "only", None)
    scs = [s for s in scenarios(ctx) if not only or only in s[0]]
    ctx.bounds = {"budget_vectors": {name: b for name, _, b in scs}, "horizon_s": scen_txn.H_CALL}
    sub = scen_txn.DedupAcc(ctx)
    counts = explore.explore_many(sub, [(name, scen_txn.make, params, bounds) for name, params, bounds in scs])
    sub.finish_into(ctx)
    for v in ctx.violations:
        ctx.log("finding", v["key"])
    ctx.note("executions_per_scenario", counts)
    ctx.sample({"scenario": scs[0][0], "params": scs[0][1]})
    if len(ctx.sets.get("outcomes", ())) < 2:
        ctx.violation("vacuity", {"what": "single-outcome"}, {}, "exploration produced a single outcome: nothing collided")


def replay(ctx, data):
    res, same = explore.replay_execution(scen_txn.make, data)
    if not same:
        print("REPLAY NOT DETERMINISTIC")
        return 2
    return 1 if res.violations else 0
