"""C10 - decoding untrusted bytes is memory-safe, terminating and fails cleanly.

Exhaustive mutation (truncation, byte substitution, boundary values in every length / count / varint
field, inconsistent inner message sets re-compressed, short headers) of a corpus of small valid
buffers; every input is decoded by the compiled codec inside an AddressSanitizer fork server
(vf.asan_worker) and by the pure-Python codec in-process, with and without validate_crc().
"""
import atexit
import gc
import os
import pickle
import select
import shutil
import signal
import struct
import subprocess
import sys
import tempfile

from vf import asan_worker as W
from vf import build
from vf import krecords as K
from vf import recgen as G
from vf.runner import Acc, HarnessError, h64

LEVEL = "exploration"

QUICK_BYTES = (0x00, 0x01, 0x7F, 0x80, 0xFF)  # plus byte^0x01 and byte^0x80
ASAN_CPU_S = 2.0
PY_CPU_S = 0.5
CHUNK = 1500


# ---------------------------------------------------------------- corpus
def corpus():
    """~40 small valid buffers: every magic, plain and compressed, library- and reference-built, and
    concatenations whose batches differ in magic."""
    pool = G.batch_pool()
    d = dict(pool)
    out = list(pool)
    for names in (("cython-v0-none-s0", "cython-v2-none-s0"), ("cython-v2-none-s0", "cython-v1-none-s0"),
                  ("cython-v1-none-s1", "cython-v0-none-s1", "python-v2-none-s1"),
                  ("cython-v1-gzip-s1", "cython-v2-lz4-s1"), ("cython-v2-snappy-s1", "cython-v1-snappy-s1"),
                  ("ref-v2-control-commit", "ref-v0-plain")):
        out.append(("+".join(names), b"".join(d[n] for n in names)))
    return out


def spans(data):
    """[(start, end, magic)] of the valid buffer's batches."""
    out = []
    pos = 0
    for magic, _, raw in K.iter_raw_batches(data):
        out.append((pos, pos + len(raw), magic))
        pos += len(raw)
    return out


# ---------------------------------------------------------------- mutations
I32 = (-2**31, -13, -12, -2, -1, 0, 1, 2**31 - 1)  # -12 = -(offset+size header): a walk that does not advance
VARINT_RAW = (b"\x80" * 9 + b"\x01", b"\xff" * 10, b"\x80" * 11, b"\xff" * 9 + b"\x7f", b"\x80", b"\xff\xff")


def _values(true_value, size, remaining):
    vals = list(I32) + [size - 1, size + 1, remaining - 1, remaining, remaining + 1]
    if true_value is not None:
        vals += [true_value - 1, true_value + 1]
    seen = []
    for v in vals:
        if v not in seen and v != true_value:
            seen.append(v)
    return seen


def _patch_len(buf, start):
    """Make the batch starting at `start` end exactly at the end of `buf` (length field = bytes - 12)."""
    b = bytearray(buf)
    struct.pack_into(">i", b, start + 8, len(b) - start - 12)
    return bytes(b)


def field_mutations(data, flds, fix_start=None):
    """Every int32 / varint field of `flds` replaced by boundary values.  If fix_start is given, variants whose
    length changed are also produced with the enclosing batch's length field re-computed."""
    size = len(data)
    for f in flds:
        if f.kind == "int32":
            true = struct.unpack_from(">i", data, f.pos)[0]
            for v in _values(true, size, size - (f.pos + 4)):
                if -2**31 <= v < 2**31:
                    yield f"{f.name}={v}", data[:f.pos] + struct.pack(">i", v) + data[f.pos + 4:]
        elif f.kind == "varint":
            true = K.decode_varint(data, f.pos)[0]
            reps = [(str(v), K.encode_varint(v)) for v in _values(true, size, size - (f.pos + f.size)) + [2**63 - 1, -2**63]]
            reps += [("raw:" + r.hex(), r) for r in VARINT_RAW]
            for label, rep in reps:
                m = data[:f.pos] + rep + data[f.pos + f.size:]
                yield f"{f.name}={label}", m
                if fix_start is not None and len(m) != size:
                    yield f"{f.name}={label}+len", _patch_len_at(m, fix_start, len(m) - size)


def _patch_len_at(buf, start, delta):
    b = bytearray(buf)
    (old,) = struct.unpack_from(">i", b, start + 8)
    new = old + delta
    if -2**31 <= new < 2**31:
        struct.pack_into(">i", b, start + 8, new)
    return bytes(b)


def subst_values(byte, thorough):
    if thorough:
        return [v for v in range(256) if v != byte]
    out = []
    for v in QUICK_BYTES + (byte ^ 0x01, byte ^ 0x80):
        if v != byte and v not in out:
            out.append(v)
    return out


def mutations(name, data, family, thorough):
    """Yield (label, bytes) of one mutation family of one corpus buffer, simplest first."""
    sp = spans(data)
    if family == "trunc":
        for n in range(len(data)):
            yield f"[:{n}]", data[:n]
    elif family == "trunc-len":
        # a batch cut short whose length field says it is complete: headers shorter than the format's header
        for bi, (s, e, _) in enumerate(sp):
            for n in range(s + 12, e):
                cut = _patch_len(data[:n], s)
                yield f"b{bi}[:{n - s}]+len", cut
                if n - s - 12 >= 1:
                    yield f"b{bi}[:{n - s}]+len+cont", cut[:-1] + b"\xff"
                    yield f"b{bi}[:{n - s}]+len+cont80", cut[:-1] + b"\x80"
                if e < len(data):
                    yield f"b{bi}[:{n - s}]+len+rest", cut + data[e:]
    elif family == "subst":
        for pos in range(len(data)):
            for v in subst_values(data[pos], thorough):
                yield f"[{pos}]={v:#04x}", data[:pos] + bytes([v]) + data[pos + 1:]
    elif family == "field":
        for bi, (s, e, _) in enumerate(sp):
            raw = data[s:e]
            flds = [K.Field(f"b{bi}.{f.name}", f.pos + s, f.size, f.kind) for f in K.fields(raw)]
            yield from field_mutations(data, flds, fix_start=s)
    elif family == "inner":
        for bi, (s, e, magic) in enumerate(sp):
            raw = data[s:e]
            codec = (raw[22] if magic == 2 else raw[17]) & 7
            if not codec:
                continue
            inner = K.inner_payload(raw)

            def wrap(payload, raw=raw, s=s, e=e):
                return data[:s] + K.with_inner_payload(raw, payload) + data[e:]

            yield f"b{bi}.inner=empty", wrap(b"")
            for n in range(1, len(inner)):
                yield f"b{bi}.inner[:{n}]", wrap(inner[:n])
            for lab, m in field_mutations(inner, K.inner_fields(raw)):
                yield f"b{bi}.inner.{lab}", wrap(m)
            for pos in range(len(inner)):
                for v in subst_values(inner[pos], thorough):
                    yield f"b{bi}.inner[{pos}]={v:#04x}", wrap(inner[:pos] + bytes([v]) + inner[pos + 1:])
            if magic != 2:
                # an inner message set one level deeper / of the other legacy magic
                yield f"b{bi}.inner=nested", wrap(raw)
                other = K.encode_legacy(1 - magic, [(G.T, b"k", b"v")])
                yield f"b{bi}.inner=other-magic", wrap(other)
                yield f"b{bi}.inner=v2", wrap(K.encode_v2([(G.T, b"k", b"v", [])]))
    elif family == "pairs":
        # thorough only: two length/count/varint fields of the same batch hostile at once
        for bi, (s, e, _) in enumerate(sp):
            raw = data[s:e]
            flds = [f for f in K.fields(raw) if f.kind in ("int32", "varint") and f.name not in ("crc",)]
            for i, f1 in enumerate(flds):
                for f2 in flds[i + 1:]:
                    for v1 in (-1, 0, 2**31 - 1, -2**31):
                        for v2 in (-2, 0, len(raw), 2**31 - 1):
                            m = bytearray(raw)
                            # replace the later field first so positions stay valid
                            for f, v in ((f2, v2), (f1, v1)):
                                rep = struct.pack(">i", v) if f.kind == "int32" else K.encode_varint(v)
                                m[f.pos:f.pos + f.size] = rep
                            m = bytes(m)
                            yield f"b{bi}.{f1.name}={v1},{f2.name}={v2}", data[:s] + m + data[e:]
                            if len(m) != len(raw):
                                yield f"b{bi}.{f1.name}={v1},{f2.name}={v2}+len", data[:s] + _patch_len_at(m, 0, len(m) - len(raw)) + data[e:]
    else:
        raise HarnessError(f"unknown family {family}")


FAMILIES_QUICK = ("trunc", "trunc-len", "subst", "field", "inner")
FAMILIES_THOROUGH = FAMILIES_QUICK + ("pairs",)


# ---------------------------------------------------------------- the ASan fork server (one per pool worker)
class Server:
    def __init__(self):
        self.dir = tempfile.mkdtemp(prefix="srv_", dir=_BASE_DIR)
        self.status = os.path.join(self.dir, "status")
        with open(self.status, "wb") as f:
            f.write(b"\0" * 128)
        env = build.asan_env()
        env["ASAN_OPTIONS"] += W.ASAN_EXTRA
        env.pop("AIOKAFKA_NO_EXTENSIONS", None)
        self.proc = subprocess.Popen([sys.executable, "-m", "vf.asan_worker", self.status, str(ASAN_CPU_S)], stdin=subprocess.PIPE,
                                     stdout=subprocess.PIPE, stderr=open(os.path.join(self.dir, "server.stderr"), "wb"),
                                     env=env, cwd=build.ROOT)
        hello = self._recv(300)
        if not (isinstance(hello, tuple) and hello[0] == "ready"):
            raise HarnessError(f"ASan worker did not start: {hello!r}")
        self.poison = hello[1]

    def _recv(self, timeout):
        r, _, _ = select.select([self.proc.stdout], [], [], timeout)
        if not r:
            self.close(kill=True)
            raise HarnessError(f"ASan worker gave no answer within {timeout}s (wall)")
        try:
            return pickle.load(self.proc.stdout)
        except EOFError:
            err = ""
            try:
                with open(os.path.join(self.dir, "server.stderr"), errors="replace") as f:
                    err = f.read()[-3000:]
            except OSError:
                pass
            raise HarnessError(f"ASan worker died: {err}") from None

    def send(self, items):
        pickle.dump(items, self.proc.stdin, 4)
        self.proc.stdin.flush()

    def recv(self, n):
        return self._recv(120 + n * 0.5)

    def close(self, kill=False):
        try:
            if kill:
                self.proc.kill()
            else:
                self.send([])
            self.proc.wait(timeout=10)
        except Exception:  # noqa: BLE001
            try:
                self.proc.kill()
            except Exception:  # noqa: BLE001
                pass
        shutil.rmtree(self.dir, ignore_errors=True)


_SERVER = None
_SERVER_PID = None
_BASE_DIR = None  # scratch directory of this run (status files, sanitizer output); removed when run()/replay() ends


def server():
    global _SERVER, _SERVER_PID
    if _SERVER is None or _SERVER_PID != os.getpid():
        _SERVER = Server()
        _SERVER_PID = os.getpid()
        atexit.register(_close_server)
    return _SERVER


def _close_server():
    global _SERVER
    if _SERVER is not None and _SERVER_PID == os.getpid():
        _SERVER.close()
        _SERVER = None


# ---------------------------------------------------------------- pure-Python implementation, in-process
class _Hang(BaseException):
    pass


def _on_timer(signum, frame):
    raise _Hang()


def python_outcome(MR, data):
    """A hang of the decoder is deterministic; a full garbage collection of the worker (seen: 0.3-0.5 s of CPU for 40k
    objects on a loaded VM) that happens to start inside the window is not.  So a time-out is only reported when the same
    input times out again right after a collection done outside the window; out["retried"] records the second attempt."""
    out = _python_attempt(MR, data)
    if out["crash"]:
        gc.collect()
        out = _python_attempt(MR, data)
        out["retried"] = True
    return out


def _python_attempt(MR, data):
    signal.setitimer(signal.ITIMER_VIRTUAL, PY_CPU_S)
    try:
        out = W.outcome_of(MR, data)
        signal.setitimer(signal.ITIMER_VIRTUAL, 0)
        return out
    except _Hang as e:
        signal.setitimer(signal.ITIMER_VIRTUAL, 0)
        return {"nb": 0, "nr": 0, "crc": [], "exc": None,
                "crash": {"kind": "timeout", "where": W.where_of(e), "via": None,
                          "detail": f"no result after {PY_CPU_S}s of CPU time", "report": ""}}
    finally:
        signal.setitimer(signal.ITIMER_VIRTUAL, 0)


# ---------------------------------------------------------------- oracles
def reference_crc_verdicts(data, upto):
    """Per batch (split by the length fields exactly as both splitters do): True/False = the CRC field matches /
    does not match the content; None = magic outside 0..2 (no verdict)."""
    out = []
    pos = 0
    n = len(data)
    while len(out) < upto and n - pos >= 12:
        (length,) = struct.unpack_from(">i", data, pos + 8)
        end = pos + 12 + length
        if length < 14 or end > n:
            break
        raw = data[pos:end]
        magic = struct.unpack_from(">b", raw, 16)[0]
        if magic == 2 and len(raw) >= 21:
            out.append((struct.unpack_from(">I", raw, 17)[0] == K.crc32c(raw[21:]), "v2"))
        elif magic in (0, 1):
            out.append((struct.unpack_from(">I", raw, 12)[0] == K.crc32(raw[16:]), "legacy"))
        else:
            out.append((None, None))
        pos = end
    return out


def judge(acc, impl, label, data, out):
    acc.count("evaluations")
    acc.count("decodes", 2)
    rp = {"impl": impl, "label": label, "hex": data.hex()}
    crash = out.get("crash")
    exc = out.get("exc")
    acc.distinct("outcomes", (impl, crash["kind"] + ":" + str(crash["where"]) if crash else None, exc[0] + ":" + exc[1] if exc else None))
    if crash:
        acc.count(f"outcome_{impl}_{crash['kind']}")
        sig = {"impl": impl, "kind": crash["kind"], "where": crash["where"]}
        if crash.get("via"):
            sig["via"] = crash["via"]
        acc.violation("memory_safe_and_terminating", sig, rp,
                      f"{impl} decoder on {label} ({len(data)} bytes): {crash['kind']} in {crash['where']}"
                      f"{' via ' + crash['via'] if crash.get('via') else ''}: {crash['detail']}\n{crash.get('report', '')[:1200]}")
    if exc and exc[0] in W.BAD_EXC:
        acc.count(f"outcome_{impl}_{exc[0]}")
        acc.violation("fails_cleanly", {"impl": impl, "kind": exc[0], "where": exc[1]}, rp,
                      f"{impl} decoder on {label} ({len(data)} bytes): {exc[0]} raised in {exc[1]}: {exc[2]}")
    crcs = out.get("crc") or []
    if any(crcs):
        ref = reference_crc_verdicts(data, len(crcs))
        for i, (got, (want, fmt)) in enumerate(zip(crcs, ref)):
            if got and want is False:
                acc.violation("checksum_mismatch_reported",
                              {"impl": impl, "kind": "crc-accepted", "where": f"{fmt}.validate_crc", "batch": "first" if i == 0 else "later"},
                              rp, f"{impl} decoder on {label}: validate_crc() of batch {i} ({fmt}) returned True although the CRC "
                                  f"field does not match the content")
                break


# ---------------------------------------------------------------- shards
def run_inputs(acc, inputs):
    """inputs: list of (label, bytes).  Compiled decoder via the ASan server, pure-Python decoder in-process."""
    im = G.impls()
    MRpy = im["python"].MemoryRecords
    srv = server()
    old = signal.signal(signal.SIGVTALRM, _on_timer)
    try:
        for i in range(0, len(inputs), CHUNK):
            chunk = inputs[i:i + CHUNK]
            srv.send([(j, d) for j, (_, d) in enumerate(chunk)])
            pyres = [python_outcome(MRpy, d) for _, d in chunk]
            cyres = srv.recv(len(chunk))
            if len(cyres) != len(chunk):
                raise HarnessError("ASan worker returned a short result list")
            for (label, d), po, (j, co) in zip(chunk, pyres, cyres):
                if co is None:
                    raise HarnessError(f"ASan worker lost input {label}")
                acc.distinct("distinct", h64(d))
                if po.get("retried"):
                    acc.count("python_timeout_second_attempts")
                judge(acc, "python", label, d, po)
                judge(acc, "cython", label, d, co)
    finally:
        signal.setitimer(signal.ITIMER_VIRTUAL, 0)
        signal.signal(signal.SIGVTALRM, old)


def _shard(shard):
    ci, family, thorough = shard
    acc = Acc()
    name, data = corpus()[ci]
    seen = set()
    inputs = []
    for label, m in mutations(name, data, family, thorough):
        if m in seen:
            continue
        seen.add(m)
        inputs.append((f"{name}:{label}", m))
    acc.count("inputs_" + family, len(inputs))
    if family == "trunc" and ci == 0:
        inputs.append((f"{name}:valid", data))
    run_inputs(acc, inputs)
    if family == "field" and ci < 3 and inputs:
        acc.sample({"corpus": name, "mutation": inputs[len(inputs) // 2][0], "hex": inputs[len(inputs) // 2][1].hex()[:120]})
    return acc


def _scratch(create=True):
    global _BASE_DIR
    if create:
        _BASE_DIR = tempfile.mkdtemp(prefix="vf_c10_")
    elif _BASE_DIR:
        shutil.rmtree(_BASE_DIR, ignore_errors=True)
        _BASE_DIR = None


def run(ctx):
    G.impls()
    build.build("asan")
    _scratch()
    corp = corpus()
    thorough = not ctx.quick
    fams = FAMILIES_THOROUGH if thorough else FAMILIES_QUICK
    ctx.rule = ("corpus of %d valid buffers (%d bytes; magic 0/1/2, plain and gzip/snappy/lz4/zstd, compiled-, Python- and "
                "reference-built, control/LogAppendTime/compacted/empty batches, 6 concatenations of differing magic); per buffer: "
                "every truncation point; every batch cut at every byte with its length field patched to 'complete' (headers shorter "
                "than the format's), also ending in a varint continuation byte and followed by the remaining batches; every byte "
                "replaced by %s; every int32 and varint field replaced by {-2^31,-2,-1,0,1,2^31-1, buffer size+-1, remaining bytes "
                "-1/0/+1, true value+-1} and for varints {2^63-1,-2^63, 10-byte, 10 and 11 continuation bytes, lone continuation "
                "bytes}, with and without re-computing the batch length; for compressed batches the same truncations/substitutions/"
                "field values applied to the uncompressed inner payload, then re-compressed with consistent outer length and CRC, plus "
                "empty / nested / other-magic inner message sets%s; each input decoded by both implementations with and without "
                "validate_crc(); distinct = distinct input byte strings"
                % (len(corp), sum(len(d) for _, d in corp),
                   "all 255 other values" if thorough else "{00,01,7f,80,ff,b^01,b^80}",
                   "; pairs of fields hostile at once" if thorough else ""))
    ctx.bounds = {"corpus": len(corp), "corpus_bytes": sum(len(d) for _, d in corp), "substitution_values": 255 if thorough else 7,
                  "asan_cpu_s_per_input": ASAN_CPU_S, "python_cpu_s_per_input": PY_CPU_S}
    ctx.assumptions += [
        "random byte strings are not covered (sampling is outside this technique); inputs are single-fault (thorough: double-fault) "
        "mutations of valid buffers",
        "memory safety of the compiled codec = no AddressSanitizer report / signal in an ASan build (clang -fsanitize=address, "
        "recover mode) with the system allocator; the byte after a bytes payload (CPython's NUL) is poisoned while decoding so the "
        "end of the input and of decompressed buffers is exact; reads that stay inside the same heap chunk (bytes object header, "
        "a neighbouring batch of the same buffer) are invisible to ASan",
        "termination = result within %.1fs (compiled) / %.1fs (pure Python) of CPU time per input of <= ~400 bytes" % (ASAN_CPU_S, PY_CPU_S),
        "checksum oracle uses vf.krecords' own CRC-32C / zlib CRC-32 and applies to batches whose magic byte is 0, 1 or 2",
        "the pure-Python codec cannot read out of bounds; for it the check decides termination, exception type and checksum only",
    ]
    only = getattr(ctx, "only", None)
    shards = []
    for fam in fams:
        for ci in range(len(corp)):
            if only and only not in fam and only not in corp[ci][0]:
                continue
            shards.append((ci, fam, thorough))
    ctx.log(f"{len(shards)} shards over {len(corp)} corpus buffers, families {fams}")
    try:
        ctx.pmap(_shard, shards, chunksize=1)
    finally:
        _close_server()
        _scratch(False)
    ctx.note("asan_redzone_after_payload", True)


# ---------------------------------------------------------------- replay
def replay(ctx, data):
    G.impls()
    build.build("asan")
    buf = bytes.fromhex(data["hex"])
    print(f"input {data.get('label')} ({len(buf)} bytes): {buf.hex()}")
    acc = Acc()
    old = signal.signal(signal.SIGVTALRM, _on_timer)
    try:
        po = python_outcome(G.impls()["python"].MemoryRecords, buf)
    finally:
        signal.signal(signal.SIGVTALRM, old)
    print(f"pure-Python decoder: batches={po['nb']} records={po['nr']} validate_crc={po['crc']} exception={po['exc']} crash={po['crash']}")
    judge(acc, "python", data.get("label"), buf, po)
    _scratch()
    srv = Server()
    try:
        srv.send([(0, buf)])
        co = srv.recv(1)[0][1]
    finally:
        srv.close()
        _scratch(False)
    print(f"compiled decoder (ASan build): batches={co['nb']} records={co['nr']} validate_crc={co['crc']} exception={co['exc']}")
    if co["crash"]:
        c = co["crash"]
        print(f"  {c['kind']} in {c['where']} via {c.get('via')}: {c['detail']}\n{c.get('report', '')}")
    judge(acc, "cython", data.get("label"), buf, co)
    print(f"reference: CRC verdict per batch {reference_crc_verdicts(buf, 8)}")
    for v in acc.violations:
        print(f"VIOLATION oracle={v['oracle']} sig={v['sig']}")
    return 1 if acc.violations else 0
