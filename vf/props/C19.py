"""C19 - stop() always terminates and leaves nothing running.

The workloads of C01-C06 (real producer, group consumers, group-less consumer on the virtual-time loop against the
simulated cluster) with stop() placed by the explorer (budget k) at every choice point - quiescent or in the middle of a
callback cascade - of the default run and of every run with one fault / cluster-mode change (one broker down,
coordinator down, every broker silently dropping replies).  Oracles: stop() returns within request timeout +
max(session, rebalance timeout) + slack of virtual time; afterwards no task, timer handle or transport created by that
client is alive (ownership via contextvars), the loop reports no unretrieved exception / unclosed object after
gc.collect(), later calls raise the documented error, and a member whose coordinator was reachable left the group.
"""
from vf import explore, scen_group, scen_producer
from vf import group_catalog as gc

LEVEL = "model_checking"

T = 1_600_000_000_500


MODES = {"healthy": None, "coordinator-down": ["down", 0], "other-broker-down": ["down", 1], "blackhole": ["blackhole"],
         "failover-keep": ["coord-move", 0], "failover-lose": ["coord-move", 1]}


def scenarios(ctx):
    """Cluster condition at the moment of stop() is a scenario parameter (in force from a fixed instant on); stop() itself is
    placed by the explorer (budget k) at every choice point, quiescent or mid-cascade (p-points)."""
    quick = ctx.quick
    out = []
    K = [{"k": 1}]
    KT = [{"k": 1, "r": 1}]
    tail = dict(h_conv=0.5, stable=0.1, stop_bound=30.0, explore_until=2.2, kill=False, coord_move=False, stop_alt=True,
                probe_after_stop=True, checks=["c19"], errs={}, faults=["drop-before", "drop-after", "lose"], k_mid=True)
    for mname, mode in MODES.items():
        extra = dict(tail)
        if mode is not None:
            extra["mode_at"] = [1.4, mode]
        out.append((f"group-two-{mname}", scen_group.make, gc.two_members(**extra), K))
        out.append((f"group-single-{mname}", scen_group.make, gc.two_members(members=[dict(topics=["t"], assignors=["range"])], **extra), K))
        if mname in ("healthy", "coordinator-down", "other-broker-down", "blackhole"):
            out.append((f"groupless-{mname}", scen_group.make, gc.two_members(members=[dict(group=False, assign=[("t", 0), ("t", 1)])],
                                                                            fault_apis=["Fetch", "ListOffsets", "Metadata"], **extra), K))
        if not quick:
            out.append((f"group-two-app-{mname}", scen_group.make, gc.two_members(baseline="app", **extra), K))
    out.append(("group-manual-assign", scen_group.make, gc.two_members(members=[dict(assign=[("t", 0), ("t", 1)])], **tail), K))
    # applications blocked in getone() (iteration) on an empty buffer with a fetch long-poll in flight when stop() is issued
    out.append(("groupless-getone", scen_group.make, gc.two_members(members=[dict(group=False, assign=[("t", 0), ("t", 1)], poll="getone")],
                                                                   feed=[0.7, 2], fault_apis=["Fetch", "ListOffsets", "Metadata"], **tail), K))
    out.append(("group-two-getone", scen_group.make, gc.two_members(members=[dict(topics=["t"], assignors=["range"], poll="getone"),
                                                                             dict(topics=["t"], assignors=["range"], start=1.0, poll="getone")],
                                                                    feed=[0.7, 2], **tail), K))
    # a consumer whose group is not authorized: start() raises (a fatal coordination error is pending, nobody polls), then the
    # application's try/finally calls stop()
    out.append(("group-unauthorized-start-fails", scen_group.make,
                gc.two_members(members=[dict(topics=["t"], assignors=["range"])], group_unauthorized=True, stop_after_failed_start=True,
                               **dict(tail, stop_alt=False)), [{"r": 1}]))
    # the final commit of stop() answered REBALANCE_IN_PROGRESS (one error reply placed anywhere, then stop placed anywhere)
    # or its reply lost: a rebalance then lasts a request timeout, polls park on it, stop() arrives meanwhile
    out.append(("group-two-commit-rebalance-in-progress", scen_group.make,
                gc.two_members(**dict(tail, errs={"OffsetCommit": [27]}, fault_apis=["OffsetCommit"], faults=["err", "lose"], k_mid=False, explore_until=1.9)),
                [{"k": 1, "f": 1}]))
    if not quick:
        out.append(("group-two-faults", scen_group.make,
                    gc.two_members(**dict(tail, errs=gc.errs(), k_mid=False, explore_until=2.0,
                                          fault_apis=["Heartbeat", "OffsetCommit", "LeaveGroup"])), [{"k": 1, "f": 1}]))
    base_f = {"faults": ["drop-before", "drop-after", "lose", "err"], "errs": {"Produce": [6, 7]}, "fault_apis": ["Produce", "Metadata"],
              "check_c01": False, "check_c02": False, "check_c19": True, "stop_gate": True}
    prog = [[(0, T), (0, T + 1)], [(0, T + 2), (1, T + 3)]]
    for mname, m in (("idem", {"idempotent": True}), ("acks1", {"acks": 1}), ("acks0", {"acks": 0})):
        for bname, b in (("single", {"batching": "single"}), ("multi", {"batching": "multi"})):
            for cname, mode in (("healthy", None), ("all-down", ["down", "all"]), ("other-down", ["down", 1]), ("blackhole", ["blackhole"])):
                if quick and cname != "healthy" and (bname == "multi" or mname == "acks0" or cname == "other-down"):
                    continue
                p = dict(base_f, **m, **b, baseline="app", program=prog)
                if mode and mname == "idem" and cname != "other-down":
                    p["k_mid"] = False  # every execution runs into the known finding (24 virtual seconds of retries): quiescent placements only
                if mode:
                    p["mode_after"] = [2, mode]  # in force once the first two records are accepted (metadata known, batches pending)
                out.append((f"producer-{mname}-{bname}-{cname}", scen_producer.make, p, KT if (not quick and cname == "healthy") else K))
    return out


def run(ctx):
    ctx.rule = ("stop() placed at every choice point (every network message and timer firing, quiescent or mid-cascade) of the default "
                "run and of every run with one fault or cluster-mode change, for producer, group-consumer and group-less consumer "
                "workloads; each execution runs the real client to completion on a fresh loop")
    ctx.assumptions += ["ownership of tasks/timers/transports via a contextvars variable inherited from the task that created the client",
                        "bound = request_timeout + max(session, rebalance timeout) + 1 s of virtual time"]
    only = getattr(ctx, "only", None)
    scs = [s for s in scenarios(ctx) if not only or only in s[0]]
    ctx.bounds = {"budget_vectors": {name: b for name, _, _, b in scs}}
    counts = explore.explore_many(ctx, scs)
    ctx.note("executions_per_scenario", counts)
    ctx.sample({"scenario": scs[0][0], "params": scs[0][2]})
    if len(ctx.sets.get("outcomes", ())) < 2:
        ctx.violation("vacuity", {"what": "single-outcome"}, {}, "exploration produced a single outcome: nothing collided")


def replay(ctx, data):
    make = scen_producer.make if data["scenario"].startswith("producer") else scen_group.make
    res, same = explore.replay_execution(make, data)
    if not same:
        print("REPLAY NOT DETERMINISTIC")
        return 2
    return 1 if res.violations else 0
