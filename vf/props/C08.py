"""C08 - isolation filter: no aborted, no unstable, no control records delivered; the position passes what was filtered.

Inputs (exhaustive): every well-formed transactional partition log of <= N entries over {transactional data batch of
producer 1..3, plain batch, COMMIT(pid), ABORT(pid)} obeying Kafka's rules (a marker closes the open transaction of its
producer; plus the legal solitary ABORT), producer ids canonical (first use in increasing order - the ids are
interchangeable); compaction variants: each data batch below the last stable offset (the cleaner never goes beyond it)
removed entirely or emptied (header kept, no records); every fetch start offset; every cut of what the broker serves
from there into responses (compositions of the batch sequence); the aborted-transaction index computed per response as
the broker does for the fetched range; both isolation levels.

Families
  L  the real AIOKafkaConsumer (vf.scen_consumer, "combos" mode) on the default schedule: one run per (log, compaction
     variant, isolation level) walks through every (start offset, cut plan): seek, poll (getmany(); on the smaller logs
     also getone() and the pure-Python record readers), position.
  E  schedule exploration (r<=1, p<=1, response cut as an explorer choice x<=1) on the logs with two or more producers.
  D  the same inputs fed directly to aiokafka.consumer.fetcher.PartitionRecords, compiled and pure-Python record readers,
     the index exactly as the broker computes it and the over-approximation a real broker may return (entries of
     transactions that start after the fetched data).

Oracle = independent reference reader (vf.conslogs.TxnLog, built from the entry list alone): read_committed returns
exactly the records of plain batches and of transactions closed by a COMMIT, below the last stable offset;
read_uncommitted returns every data record below the high watermark; never a control record; in order, once
(vf.scen_consumer.Model).  After the last poll position() has passed every batch the broker serves (so it never
re-fetches what it filtered), and no Fetch position is answered with data more than twice.
"""

from vf import conslogs, explore, scen_consumer
from vf.runner import Acc

LEVEL = "model_checking"


def compositions(m):
    if m == 0:
        return [()]
    out = []
    for first in range(1, m + 1):
        for rest in compositions(m - first):
            out.append((first,) + rest)
    return out


_COMP = {m: compositions(m) for m in range(0, 8)}


def variants(entries, compaction):
    """[(removed, emptied)]: no compaction, then each cleanable data batch removed / emptied."""
    out = [((), ())]
    if compaction:
        tl = conslogs.TxnLog(entries)
        for i in tl.compactable():
            out.append(((i,), ()))
            out.append(((), (i,)))
    return out


def combos_for(tl, committed_only, max_cuts=None):
    out = []
    for s in range(0, tl.end):
        m = sum(1 for base, last, i in tl.served(committed_only) if last >= s)
        comps = _COMP[m]
        for c in comps:
            out.append([s, list(c)])
    return out


def log_name(entries, removed=(), emptied=()):
    def one(i, e):
        tag = "".join(str(x) for x in e)
        if i in removed:
            tag += "-"
        if i in emptied:
            tag += "0"
        return tag

    return ".".join(one(i, e) for i, e in enumerate(entries))


def l_params(entries, removed, emptied, isolation, codec=None, call=None):
    tl = conslogs.TxnLog(entries, 0, removed, emptied)
    combos = combos_for(tl, isolation == "read_committed")
    p = {"logs": {"0": {"txn": [list(e) for e in entries], "removed": list(removed), "emptied": list(emptied)}},
         "isolation": isolation, "combos": combos, "program": [], "drain": False, "baseline": "net",
         "fetch_cap": 12 * len(combos) + 60, "brokers": 1}
    if codec:
        p["codec"] = codec
    if call:
        p["combo_call"] = call
        p["fetch_cap"] = 2 * p["fetch_cap"]
    return p


def _run_default(shard):
    """Worker: default-schedule execution of each (name, params); mirrors explore._explore_task's bookkeeping."""
    acc = Acc()
    for name, desc in shard:
        params = l_params(*desc)  # built here: the parent only holds the compact descriptors
        res = explore.execute(scen_consumer.make, params, [], {})
        acc.count("evaluations")
        acc.count("transitions", res.transitions)
        acc.count("choice_points", res.cps)
        acc.count("cases_L", len(params["combos"]))
        acc.sets.setdefault("states", set()).update(res.digests)
        acc.distinct("outcomes", res.outcome)
        acc.count("distinct_executions")
        if res.capped:
            acc.cap(f"step cap hit in scenario {name}")
        for oracle, sig, msg in res.violations:
            res2 = explore.execute(scen_consumer.make, params, [], {})
            if (oracle, sig) not in [(o, s) for o, s, _ in res2.violations]:
                from vf.runner import HarnessError

                raise HarnessError(f"FLAKY verdict for {name}: {oracle} {sig} not reproduced")
            sig = dict(sig)
            sig["scenario"] = "L"
            acc.violation(oracle, sig, {"scenario": name, "params": params, "bounds": {}, "deviations": []}, f"[{name}] {msg}")
    return acc


# ---- family D: PartitionRecords directly ---------------------------------------------------------------------------
def _direct(shard):
    from aiokafka.consumer.fetcher import PartitionRecords
    from aiokafka.structs import TopicPartition
    import aiokafka.record.default_records as dr
    import aiokafka.record.memory_records as mr

    acc = Acc()
    tp = TopicPartition("t", 0)
    saved = mr.DefaultRecordBatch
    impls = [("compiled", mr.MemoryRecords, saved), ("python", mr._MemoryRecordsPy, dr._DefaultRecordBatchPy)]
    try:
        for item in shard:
            entries, compaction = item[0], item[1]
            flt = item[2] if len(item) > 2 else None
            for removed, emptied in variants(entries, compaction):
                if flt is not None and (list(removed) != flt["removed"] or list(emptied) != flt["emptied"]):
                    continue
                tl = conslogs.TxnLog(entries, 0, removed, emptied)
                raws = dict(tl.raw_batches())
                for committed_only in (False, True):
                    served = tl.served(committed_only)
                    want_all = tl.expected(committed_only, 0)
                    for s in range(0, tl.end):
                        avail = [(base, last, i) for base, last, i in served if last >= s]
                        for j in range(1, len(avail) + 1):
                            part = avail[:j]
                            data = b"".join(raws[i] for _, _, i in part)
                            last_j = part[-1][1]
                            want = [o for o in want_all if s <= o <= last_j]
                            idx_exact = tl.aborted_for(s, last_j + 1) if committed_only else None
                            idx_over = tl.aborted_for(s, tl.end) if committed_only else None
                            idxs = [("exact", idx_exact)]
                            if committed_only and idx_over != idx_exact:
                                idxs.append(("superset", idx_over))
                            for iname, idx in idxs:
                                for impl, cls, batch_cls in impls:
                                    if flt is not None and (flt["start"], flt["batches"], flt["index"], flt["impl"], flt["isolation"]) != (
                                            s, j, iname, impl, "read_committed" if committed_only else "read_uncommitted"):
                                        continue
                                    mr.DefaultRecordBatch = batch_cls
                                    acc.count("evaluations")
                                    acc.count("cases_D")
                                    err = None
                                    got = None
                                    try:
                                        pr = PartitionRecords(tp, cls(data), list(idx) if idx is not None else None, s, None, None,
                                                              True, 1 if committed_only else 0)
                                        recs = list(pr)
                                        got = [r.offset for r in recs]
                                        nfo = pr.next_fetch_offset
                                        bad_content = [r.offset for r in recs if r.value != conslogs.value_of(0, r.offset)]
                                    except Exception as e:  # noqa: BLE001
                                        err = f"{type(e).__name__}: {e}"
                                    acc.distinct("outcomes", (tuple(got or ()), err))
                                    iso = "read_committed" if committed_only else "read_uncommitted"
                                    rep = {"family": "D", "entries": [list(e) for e in entries], "removed": list(removed),
                                           "emptied": list(emptied), "isolation": iso, "start": s, "batches": j, "index": iname,
                                           "impl": impl}
                                    where = (f"[D {log_name(entries, removed, emptied)} {iso} start {s} first {j} served batches, "
                                             f"{iname} aborted index {idx}, {impl} reader]")
                                    if err is not None:
                                        acc.violation("direct", {"what": "exception", "impl": impl, "type": err.split(":")[0]}, rep,
                                                      f"{where} raised {err}")
                                        continue
                                    if got != want:
                                        extra = [o for o in got if o not in want]
                                        missing = [o for o in want if o not in got]
                                        kinds = sorted({tl.kind_at(o) for o in extra} | {"missing:" + tl.kind_at(o) for o in missing})
                                        acc.violation("direct", {"what": "wrong-records", "isolation": iso, "kinds": ",".join(kinds),
                                                                 "index": iname, "impl": impl}, rep,
                                                      f"{where} yielded offsets {got}, reference reader {want}")
                                    elif bad_content:
                                        acc.violation("direct", {"what": "wrong-content", "impl": impl}, rep, f"{where} altered records {bad_content}")
                                    if nfo != last_j + 1:
                                        acc.violation("direct", {"what": "next-fetch-offset", "isolation": iso, "impl": impl,
                                                                 "last_batch": tl.kind_at(last_j)}, rep,
                                                      f"{where} next_fetch_offset {nfo}, the response ends at {last_j} (want {last_j + 1})")
    finally:
        mr.DefaultRecordBatch = saved
    return acc


def e_scenarios(ctx, logs):
    out = []
    for entries in logs:
        tl = conslogs.TxnLog(entries)
        for isolation in ("read_uncommitted", "read_committed"):
            for cuts, cname in ((None, "all"), (1, "one")):
                if cuts == 1 and len(entries) < 2:
                    continue
                p = {"logs": {"0": {"txn": [list(e) for e in entries]}}, "isolation": isolation, "program": [], "baseline": "net",
                     "cuts": cuts, "cut_choice": cuts is None, "brokers": 1, "coordinator": 0}
                b = [{"r": 1}, {"p": 1}, {"x": 1}] if cuts is None else [{"r": 1}, {"p": 1}]
                out.append((f"E/{log_name(entries)}/{'rc' if isolation == 'read_committed' else 'ru'}/{cname}", p, b))
    return out


def run(ctx):
    quick = ctx.quick
    n_l = 4 if quick else 6
    n_comp = 3 if quick else 5  # compaction variants for logs up to this size
    n_e = 3 if quick else 4
    n_d = 5 if quick else 6
    only = getattr(ctx, "only", None) or ""
    ctx.rule = ("every well-formed transactional log of the stated size x compaction variant x isolation level x start offset x "
                "composition of the served batches into responses, on the real consumer (default schedule) and directly on "
                "PartitionRecords with both record readers; plus deviation-bounded schedule exploration on the multi-producer logs")
    ctx.assumptions += [
        "reference reader and aborted-transaction index are computed from the entry list alone (vf.conslogs.TxnLog)",
        "compaction touches only batches below the last stable offset; a cleaned batch is removed or left empty",
        "the simulated broker serves read_committed fetches up to the LSO with the index entries whose range intersects the response",
        "data batches carry 1 record (the filter works per batch); producer ids canonical",
    ]
    ctx.bounds = {"L_entries_max": n_l, "L_compaction_entries_max": n_comp, "E_entries_max": n_e, "D_entries_max": n_d,
                  "E_budgets": [{"r": 1}, {"p": 1}, {"x": 1}]}
    logs = conslogs.enumerate_txn_logs(n_l)
    # ---- L ---------------------------------------------------------------------------------------------------
    if not only or only.startswith("L"):
        jobs = []
        for entries in logs:
            for removed, emptied in variants(entries, len(entries) <= n_comp):
                for isolation in ("read_uncommitted", "read_committed"):
                    name = f"L/{log_name(entries, removed, emptied)}/{'rc' if isolation == 'read_committed' else 'ru'}"
                    if only and only not in name:
                        continue
                    jobs.append((name, (entries, removed, emptied, isolation)))
                    if len(entries) <= (3 if quick else 4) and not removed and not emptied:
                        jobs.append((name + "/py", (entries, removed, emptied, isolation, "py")))
                    if len(entries) <= (3 if quick else 5):
                        # same walk polled with getone(): one record per call, position must still pass trailing markers /
                        # aborted / emptied batches of a response
                        jobs.append((name + "/getone", (entries, removed, emptied, isolation, None, "getone")))
        ctx.log(f"L: {len(jobs)} consumer runs")
        size = max(1, min(40, len(jobs) // (ctx.jobs * 8) or 1))
        shards = [jobs[i:i + size] for i in range(0, len(jobs), size)]
        ctx.pmap(_run_default, shards)
        ctx.count("scenarios", len(jobs))
        if jobs:
            last = l_params(*jobs[-1][1])
            ctx.sample({"scenario": jobs[-1][0], "isolation": last["isolation"], "combos": last["combos"][:6]})
    # ---- D ---------------------------------------------------------------------------------------------------
    if not only or only.startswith("D"):
        dlogs = conslogs.enumerate_txn_logs(n_d)
        items = [(e, len(e) <= n_comp) for e in dlogs]
        size = max(1, len(items) // (ctx.jobs * 12) or 1)
        shards = [items[i:i + size] for i in range(0, len(items), size)]
        ctx.log(f"D: {len(items)} logs directly on PartitionRecords")
        ctx.pmap(_direct, shards)
    # ---- E ---------------------------------------------------------------------------------------------------
    if not only or only.startswith("E"):
        two = [e for e in conslogs.enumerate_txn_logs(n_e) if len({x[1] for x in e if x[0] != "p"}) >= 2]
        scs = [s for s in e_scenarios(ctx, two) if not only or only in s[0]]
        ctx.log(f"E: {len(scs)} explored scenarios on {len(two)} multi-producer logs")
        counts = scen_consumer.explore_chunked(ctx, [(name, scen_consumer.make, params, bounds) for name, params, bounds in scs])
        ctx.note("executions_E", sum(counts.values()))
        for k in [k for k in ctx.counts if k.startswith("exec:")]:
            del ctx.counts[k]
    scen_consumer.family_sigs(ctx)
    ctx.note("logs_enumerated", {"L": len(logs)})
    if len(ctx.sets.get("outcomes", ())) < 2:
        ctx.violation("vacuity", {"what": "single-outcome"}, {}, "exploration produced a single outcome")


def replay(ctx, data):
    if data.get("family") == "D":
        acc = _direct_one(data)
        for v in acc.violations:
            print("VERDICT", v["oracle"], v["sig"], v["msg"])
        return 1 if acc.violations else 0
    res, same = explore.replay_execution(scen_consumer.make, data)
    if not same:
        print("REPLAY NOT DETERMINISTIC")
        return 2
    return 1 if res.violations else 0


def _direct_one(data):
    """Re-run exactly the recorded direct case."""
    entries = [tuple(e) for e in data["entries"]]
    return _direct([(entries, True, data)])
