"""C05 - within a generation partitions have one owner; revoked partitions go silent.

Real group AIOKafkaConsumers against the simulated coordinator (vf.scen_group), members with equal / different
subscriptions, each assignor, pattern subscription with a topic appearing mid-run, partition-count change, a
subscription change during a rebalance, listener callbacks stretched by explorer gates.  Oracles
(vf.oracles_group.check_c05): what the leader distributed per generation is pairwise disjoint and inside each member's
subscription; what a member adopts and reports from assignment() equals the SyncGroup bytes it was sent; nothing of a
revoked partition is returned between on_partitions_revoked and the next on_partitions_assigned that includes it; every
returned record was fetched by a request written after the member adopted its current assignment; every participant's
revoke callback ended before any participant's assign callback of that generation began.
"""
from vf import group_catalog as gc

LEVEL = "model_checking"


def scenarios(ctx):
    quick = ctx.quick
    out = []
    Q = [{"r": 1}, {"f": 1}, {"k": 1}, {"p": 1}]
    # thorough: pairs of deviations (each pair ~2*10^5 group executions per scenario); mid-cascade injections (p) are already
    # several thousand per run, so they are paired only with nothing
    T = Q + [{"r": 1, "f": 1}, {"k": 1, "r": 1}, {"r": 2}]
    B = Q if quick else Q + [{"r": 2}]
    e = gc.errs(membership=False)
    tail = dict(h_conv=5.5, stable=0.5)
    for a in ("range", "roundrobin", "sticky"):
        members = [dict(topics=["t"], assignors=[a]), dict(topics=["t"], assignors=[a], start=1.0)]
        out.append((f"same-sub-{a}", gc.two_members(errs=e, members=members, stretch=True, **tail), (Q if quick else T) if a == "range" else Q))
    out.append(("different-subs", gc.two_members(errs=e, topics={"t": 2, "u": 2}, stretch=True,
                                                 members=[dict(topics=["t", "u"], assignors=["roundrobin"]),
                                                          dict(topics=["u"], assignors=["roundrobin"], start=0.8)], **tail), B))
    # three members, two of them (consecutive in the sorted cycle) not subscribed to the other topic
    out.append(("three-different-subs", gc.two_members(errs=e, topics={"t": 2, "u": 2},
                                                       members=[dict(topics=["t"], assignors=["roundrobin"]),
                                                                dict(topics=["u"], assignors=["roundrobin"], start=0.3),
                                                                dict(topics=["u"], assignors=["roundrobin"], start=0.6)], **tail), [{"r": 1}, {"k": 1}]))
    out.append(("assignor-pair", gc.two_members(errs=e, members=[dict(topics=["t"], assignors=["sticky", "range"]),
                                                                 dict(topics=["t"], assignors=["range", "sticky"], start=0.8)], **tail), Q))
    out.append(("pattern-new-topic", gc.two_members(errs=e, topics={"ta": 1}, new_topic_at=[1.2, "tb", 2], metadata_max_age_ms=500,
                                                    members=[dict(pattern="^t.*", assignors=["range"]),
                                                             dict(pattern="^t.*", assignors=["range"], start=0.5)], **tail), Q))
    out.append(("partition-growth", gc.two_members(errs=e, topics={"t": 1}, grow_at=[1.2, "t", 3], metadata_max_age_ms=500,
                                                   members=[dict(topics=["t"], assignors=["range"]),
                                                            dict(topics=["t"], assignors=["range"], start=0.5)], **tail), Q))
    out.append(("resubscribe-during-rebalance", gc.two_members(errs=e, topics={"t": 2, "u": 1}, stretch=True,
                                                               members=[dict(topics=["t"], assignors=["range"], resubscribe=[1.0, ["t", "u"]]),
                                                                        dict(topics=["t", "u"], assignors=["range"], start=1.0)], **tail), B))
    # an application that stops polling for longer than max_poll_interval_ms (the heartbeat task then leaves the group) with
    # records prefetched, and polls again afterwards
    out.append(("idle-member", gc.two_members(errs=e, feed=[0.2, 10], poll_max_records=1,
                                              members=[dict(topics=["t"], assignors=["range"], max_poll_interval_ms=700, idle=[0.6, 2.2]),
                                                       dict(topics=["t"], assignors=["range"], start=0.3)], **tail), Q))
    out.append(("app-eager", gc.two_members(errs=e, baseline="app", stretch=True, **tail), Q))
    if not quick:
        out.append(("three", gc.two_members(errs=e, topics={"t": 3}, members=[dict(topics=["t"], assignors=["roundrobin"]),
                                                                              dict(topics=["t"], assignors=["roundrobin"], start=0.6),
                                                                              dict(topics=["t"], assignors=["roundrobin"], start=1.2, stop=2.0)], **tail), Q))
    return out


def run(ctx):
    ctx.rule = ("every schedule of environment events (deliveries incl. in-flight fetches overlapping rebalances, timers, callback gates, "
                "faults, coordinator move, member kill) whose deviation counts fit a budget vector, on real multi-member groups")
    ctx.assumptions += ["simulated group coordinator follows DESIGN Appendix A", "adoption instants observed by run-time wrappers around "
                        "SubscriptionState.assign_from_subscribed/begin_reassignment (observation only)",
                        "deviations placed before explore_until; then a quiet tail"]
    gc.run_catalog(ctx, "C05", ("c05",), scenarios(ctx))


def replay(ctx, data):
    return gc.replay(data)
