"""C11 - API messages encode to the Kafka wire format and negotiate versions safely.

Bounded exhaustive enumeration against the independent tables of vf.kwire:

* phase "struct":  every RequestStruct / Response class found by reflection x value vectors in which each
  field (at any nesting depth, including every tagged-field slot of flexible versions) takes every boundary
  value of its *reference* wire type while the others hold their default (thorough: also every pair of
  fields, and the varied element in second position of its enclosing arrays).
  Oracles: library bytes == reference bytes; decode(encode(v)) == v with the buffer fully consumed.
* phase "pair":    every RequestStruct class x every boundary vector of the *reference* response of the
  request's own header version: the reference reply (header form chosen by the reference) must decode
  through `parse_response_header` + `RESPONSE_TYPE` to the same values with nothing left over.
* phase "builder": every Request builder x every broker range 0<=min<=max<=max_known+1 (plus "api key not
  advertised") x the builder's parameter grid.  Oracles: version written in the header == max(range ∩
  {c.API_VERSION for c in _CLASSES}) or prepare() raises when that set is empty; header+body bytes ==
  reference bytes for the reference translation of the parameters; a judged parameter (transactional id,
  isolation level, coordinator type, timestamp search, authorized operations) that the chosen version
  cannot express raises IncompatibleBrokerVersion.  Other dropped parameters are listed, not judged.
"""
import importlib
import io
import itertools
import json
import pkgutil
import re
import struct as _struct

from vf import kwire
from vf.runner import Acc, HarnessError

LEVEL = "exploration"

CORR = 0x01020304
CLIENT = "aiokafka-vf"

# --------------------------------------------------------------------------- discovery


class _Lib:
    """Everything imported from the library under test, resolved once per process."""

    def __init__(self):
        import aiokafka.protocol as P
        from aiokafka.errors import IncompatibleBrokerVersion
        from aiokafka.protocol import api, types

        self.types = types
        self.api = api
        self.IBV = IncompatibleBrokerVersion
        mods = []
        for m in pkgutil.walk_packages(P.__path__, P.__name__ + "."):
            mods.append(importlib.import_module(m.name))
        self.structs = {}  # name -> (class, kind)
        self.builders = {}
        order = []

        def add(c):
            if c in (api.RequestStruct, api.Response, api.Request) or not isinstance(c, type):
                return
            if issubclass(c, api.RequestStruct):
                if c.__name__ not in self.structs:
                    self.structs[c.__name__] = (c, "request")
                    order.append(c.__name__)
            elif issubclass(c, api.Response):
                if c.__name__ not in self.structs:
                    self.structs[c.__name__] = (c, "response")
                    order.append(c.__name__)
            elif issubclass(c, api.Request):
                self.builders.setdefault(c.__name__, c)

        for mod in mods:
            for c in vars(mod).values():
                add(c)

        def rec(base):
            for s in base.__subclasses__():
                add(s)
                rec(s)

        for base in (api.RequestStruct, api.Response, api.Request):
            rec(base)
        T = types
        # what each library primitive claims to be: (reference type, compact?)
        self.prim = {T.Int8: ("int8", False), T.Int16: ("int16", False), T.Int32: ("int32", False),
                     T.Int64: ("int64", False), T.UInt32: ("uint32", False), T.Float64: ("float64", False),
                     T.Boolean: ("bool", False), T.Bytes: ("bytes", False), T.CompactBytes: ("bytes", True)}
        self.helper_structs = sorted(
            n for mod in mods for n, c in vars(mod).items()
            if isinstance(c, type) and issubclass(c, api.Struct) and c.__module__ == mod.__name__
            and not issubclass(c, (api.RequestStruct, api.Response)) and c is not api.Struct
            and not n.startswith(("RequestHeader", "ResponseHeader")))  # headers are covered with the requests


_LIB = None


def lib():
    global _LIB
    if _LIB is None:
        _LIB = _Lib()
    return _LIB


# --------------------------------------------------------------------------- value descriptors (JSON-able)

_IR = {"int8": 7, "int16": 15, "int32": 31, "int64": 63}


def _defaults(fields):
    return {f.name: (list(f.default) if isinstance(f.default, list) else f.default) for f in fields}


def _prim_fill(t, i):
    if t in _IR:
        return i + 1
    if t == "string":
        return f"s{i}"
    if t in ("bytes", "records"):
        return bytes([i & 0xFF])
    if t == "bool":
        return bool(i & 1)
    if t == "float64":
        return i + 0.5
    raise HarnessError(f"no filler for primitive array element {t}")


def realize(desc, f):
    k = desc[0]
    if k == "i":
        return desc[1]
    if k == "b":
        return bool(desc[1])
    if k == "f":
        return float(desc[1])
    if k == "null":
        return None
    if k == "s":
        return desc[1]
    if k == "sn":
        return desc[1] * desc[2]
    if k == "y":
        return bytes.fromhex(desc[1])
    if k == "yn":
        return bytes.fromhex(desc[1]) * desc[2]
    if k == "arr":
        if f.elem == "struct":
            return [_defaults(f.fields) for _ in range(desc[1])]
        return [_prim_fill(f.elem, i) for i in range(desc[1])]
    if k == "pl":
        return [realize(x, None) for x in desc[1]]
    if k == "tags":
        return {int(t): realize(v, None) for t, v in desc[1]}
    raise HarnessError(f"bad descriptor {desc!r}")


def _prim_values(t, flex, level):
    """level 2 = all boundaries, 1 = without the big ones (pairwise), 0 = two extremes."""
    if t in _IR:
        hi = (1 << _IR[t]) - 1
        vs = [hi, -hi - 1, -1, 1, 0]
        return [["i", x] for x in (vs if level else vs[:2])]
    if t == "bool":
        return [["b", True], ["b", False]][: 2 if level else 1]
    if t == "float64":
        vs = [["f", 1.5], ["f", -1.7976931348623157e308], ["f", 5e-324], ["f", float("inf")], ["f", 0.0]]
        return vs if level else vs[:2]
    if t == "string":
        vs = [["s", "é€\U0001F600"], ["s", ""], ["s", "a"], ["sn", "x", 126], ["sn", "x", 127], ["sn", "x", 128]]
        if level == 2:
            vs += [["sn", "x", 255], ["sn", "x", 256], ["sn", "x", 16382], ["sn", "x", 16383], ["sn", "x", 16384],
                   ["sn", "é", 16383], ["sn", "x", 32767]]
        return vs if level else vs[:2]
    if t in ("bytes", "records"):
        vs = [["y", "ff007f80"], ["y", ""], ["y", "00"], ["yn", "ab", 126], ["yn", "ab", 127], ["yn", "ab", 128]]
        if level == 2:
            vs += [["yn", "ab", 16382], ["yn", "ab", 16383], ["yn", "ab", 16384], ["yn", "ab", 70000]]
        return vs if level else vs[:2]
    raise HarnessError(f"no boundary values for {t}")


_TAGS = [
    ["tags", [[1, ["y", "78"]]]], ["tags", []], ["tags", [[1, ["y", ""]]]], ["tags", [[0, ["y", "71"]]]],
    ["tags", [[2, ["y", "61"]], [7, ["y", "6263"]]]], ["tags", [[127, ["y", "7a"]]]], ["tags", [[128, ["y", "7a"]]]],
    ["tags", [[16384, ["y", "7a"]]]], ["tags", [[1, ["yn", "79", 127]]]], ["tags", [[1, ["yn", "79", 128]]]],
    ["tags", [[1, ["yn", "79", 16384]]]],
]


def values_for(f, flex, level):
    if f is None:  # a tagged-field slot
        return _TAGS if level == 2 else (_TAGS[:5] if level else _TAGS[:2])
    out = [["null"]] if f.nullable else []
    if f.type != "array":
        return out + _prim_values(f.type, flex, level)
    if f.elem == "struct":
        out += [["arr", 0], ["arr", 1], ["arr", 2]] if level else [["arr", 0], ["arr", 2]]
    else:
        ev = _prim_values(f.elem, flex, 1)
        out += [["arr", 0], ["pl", [ev[0], ev[1]]], ["pl", [ev[2 % len(ev)]]]]
        if level:
            out += [["pl", [x]] for x in ev[3:]]
    if flex and level:
        out += [["arr", 126], ["arr", 127]]
        if level == 2:
            out += [["arr", 16382], ["arr", 16383]]
    return out


def paths_of(fields, flex, prefix=()):
    """(path, VField|None) for every field at every depth; None marks a tagged-field slot."""
    for f in fields:
        yield prefix + (f.name,), f
        if f.type == "array" and f.elem == "struct":
            yield from paths_of(f.fields, flex, prefix + (f.name,))
    if flex:
        yield prefix + ("_tagged_fields",), None


def field_at(fields, path):
    f = None
    for name in path:
        if name == "_tagged_fields":
            return None
        f = next(x for x in fields if x.name == name)
        fields = f.fields
    return f


def build_body(fields, assigns, wrap):
    """assigns: [(path, descriptor)]; enclosing arrays get `wrap` elements, the varied one last."""
    d = {}
    for f in fields:
        exact = [a for a in assigns if a[0] == (f.name,)]
        nested = [(a[0][1:], a[1]) for a in assigns if len(a[0]) > 1 and a[0][0] == f.name]
        if exact:
            d[f.name] = realize(exact[0][1], f)
        elif nested:
            d[f.name] = [_defaults(f.fields) for _ in range(wrap - 1)] + [build_body(f.fields, nested, wrap)]
        else:
            d[f.name] = list(f.default) if isinstance(f.default, list) else f.default
    for a in assigns:
        if a[0] == ("_tagged_fields",):
            d["_tagged_fields"] = realize(a[1], None)
    return d


def _big(d):
    return (d[0] in ("sn", "yn") and d[2] > 1000) or (d[0] == "arr" and d[1] > 1000) or \
        (d[0] == "tags" and any(_big(v) for _, v in d[1]))


def vectors(sch, tier_thorough):
    """Yield (assigns, wrap), simplest first."""
    yield [], 1
    ps = list(paths_of(sch.fields, sch.flexible))
    for path, f in ps:
        for desc in values_for(f, sch.flexible, 2):
            yield [(path, desc)], 1
    if not tier_thorough:
        return
    for path, f in ps:
        if len(path) > 1:
            for desc in values_for(f, sch.flexible, 1):
                yield [(path, desc)], 2
    for (p1, f1), (p2, f2) in itertools.combinations(ps, 2):
        if p1 == p2[:len(p1)] or p2 == p1[:len(p2)]:
            continue  # assigning the outer array a literal value would hide the inner assignment
        v1 = values_for(f1, sch.flexible, 2)
        v2 = values_for(f2, sch.flexible, 2)
        for d1 in v1:
            for d2 in v2:
                if _big(d1) and _big(d2):
                    continue  # two multi-KB values at once add nothing over each alone
                yield [(p1, d1), (p2, d2)], 1
    for trio in itertools.combinations(ps, 3):
        pp = [p for p, _ in trio]
        if any(a == b[:len(a)] or b == a[:len(b)] for a, b in itertools.combinations(pp, 2)):
            continue
        for ds in itertools.product(*[values_for(f, sch.flexible, 0) for _, f in trio]):
            yield list(zip(pp, ds)), 1


# --------------------------------------------------------------------------- reference dict <-> library value

class Misaligned(Exception):
    def __init__(self, path, why):
        super().__init__(f"{path}: {why}")
        self.path = path
        self.why = why


def _kind_of_lib(t):
    T = lib().types
    if isinstance(t, T.Array):
        return "array"
    if isinstance(t, T.Schema):
        return "schema"
    if isinstance(t, T.String):
        return "string"
    if t is T.TaggedFields:
        return "tags"
    if t in (T.Bytes, T.CompactBytes):
        return "bytes"
    if t is T.Boolean:
        return "bool"
    if t is T.Float64:
        return "float64"
    if t in (T.Int8, T.Int16, T.Int32, T.Int64, T.UInt32):
        return "int"
    return "?" + getattr(t, "__name__", repr(t))


def _kind_of_ref(f):
    if f.type in _IR or f.type in ("uint16", "uint32"):
        return "int"
    if f.type == "records":
        return "bytes"
    return f.type


def _conv(t, rf, val, path):
    T = lib().types
    lk = _kind_of_lib(t)
    if lk == "array":
        if rf.type != "array":
            raise Misaligned(path, f"library has an array, the protocol has {rf.type}")
        if val is None:
            return None
        inner = t.array_of
        if isinstance(inner, T.Schema):
            if rf.elem == "struct":
                return [to_lib(inner, rf.fields, e, path + ".") for e in val]
            n = [x for x in inner.fields if x is not T.TaggedFields]
            if len(n) != 1:
                raise Misaligned(path, f"library element is a {len(n)}-field struct, the protocol has {rf.elem}")
            return [tuple({} if x is T.TaggedFields else e for x in inner.fields) for e in val]
        if rf.elem == "struct":
            if len(rf.fields) != 1:
                raise Misaligned(path, f"library element is a primitive, the protocol has a {len(rf.fields)}-field struct")
            sub = rf.fields[0]
            return [_conv(inner, sub, e[sub.name], path + "." + sub.name) for e in val]
        return list(val)
    if lk != _kind_of_ref(rf):
        raise Misaligned(path, f"library field is {lk}, the protocol has {rf.type}")
    return val


def _to_lib(ls, it, d, path):
    T = lib().types
    out = []
    for name, t in zip(ls.names, ls.fields):
        if t is T.TaggedFields:
            out.append(dict(d.get("_tagged_fields") or {}))
        elif isinstance(t, T.Schema):  # inline struct: its fields are consecutive fields of the protocol struct
            out.append(_to_lib(t, it, d, path))
        else:
            rf = next(it, None)
            if rf is None:
                raise Misaligned(path + name, "library has more fields than the protocol")
            out.append(_conv(t, rf, d[rf.name], path + rf.name))
    return tuple(out)


def to_lib(ls, rfields, d, path=""):
    it = iter(rfields)
    out = _to_lib(ls, it, d, path)
    extra = next(it, None)
    if extra is not None:
        raise Misaligned(path + extra.name, "the protocol has a field the library schema lacks")
    return out


def lib_type_at(ls, rfields, path):
    """Library type object aligned with reference path (None when it cannot be located)."""
    T = lib().types

    def flat(s):
        for name, t in zip(s.names, s.fields):
            if isinstance(t, T.Schema):
                yield from flat(t)
            else:
                yield name, t

    try:
        for depth, name in enumerate(path):
            items = list(flat(ls))
            if name == "_tagged_fields":
                tl = [t for _, t in items if t is T.TaggedFields]
                return tl[0] if tl else None
            idx = [f.name for f in rfields].index(name)
            t = [t for _, t in items if t is not T.TaggedFields][idx]
            rf = rfields[idx]
            if depth == len(path) - 1:
                return t
            if not isinstance(t, T.Array) or not isinstance(t.array_of, T.Schema) or rf.fields is None:
                return None
            ls, rfields = t.array_of, rf.fields
    except (IndexError, ValueError):
        return None
    return None


# --------------------------------------------------------------------------- diagnosis helpers

def _typediff(t, rf, flex, p):
    T = lib().types
    L = lib()
    if isinstance(t, T.Array):
        if rf.type != "array" or isinstance(t, T.CompactArray) != flex:
            return p
        inner = t.array_of
        if isinstance(inner, T.Schema):
            if rf.elem == "struct":
                return schema_diff(inner, rf.fields, flex, p + ".")
            return p
        if rf.elem == "struct":
            if len(rf.fields) != 1 or flex:  # a flexible element struct carries its own tagged fields
                return p
            return _typediff(inner, rf.fields[0], flex, p + "." + rf.fields[0].name)
        return _typediff(inner, kwire.VField("", rf.elem, False, None, None, None), flex, p)
    rt = "bytes" if rf.type == "records" else rf.type
    if isinstance(t, T.String):
        return p if rt != "string" or isinstance(t, T.CompactString) != flex else None
    if t in L.prim:
        lt, compact = L.prim[t]
        return p if lt != rt or (lt == "bytes" and compact != flex) else None
    return p


def schema_diff(ls, rfields, flex, path=""):
    """First field (reference path) at which the library schema's own type claims differ from the protocol's:
    integer width, compact vs classic length, missing/extra/misplaced tagged fields, field count."""
    T = lib().types

    def flat(s):
        for name, t in zip(s.names, s.fields):
            if isinstance(t, T.Schema):
                yield from flat(t)
            else:
                yield name, t

    items = list(flat(ls))
    ri = 0
    for idx, (name, t) in enumerate(items):
        if t is T.TaggedFields:
            if not flex or idx != len(items) - 1:
                return path + "_tagged_fields"
            continue
        if ri >= len(rfields):
            return path + name
        rf = rfields[ri]
        ri += 1
        d = _typediff(t, rf, flex, path + rf.name)
        if d:
            return d
    if ri < len(rfields):
        return path + rfields[ri].name
    if flex and not any(t is T.TaggedFields for _, t in items):
        return path + "_tagged_fields"
    return None


_IDX = re.compile(r"\[\d+\]")


def first_diff(ref, got, trace, raw=False):
    n = next((i for i, (a, b) in enumerate(zip(ref, got)) if a != b), min(len(ref), len(got)))
    path = "<start>"
    if n >= len(ref):
        path = "<trailing>"
    else:
        for off, p in trace:
            if off <= n:
                path = p
            else:
                break
    return (n, _IDX.sub("", path), path) if raw else (n, _IDX.sub("", path))


_PART = re.compile(r"([^\[]+)((?:\[\d+\])*)$")


def fault_at(ls, rfields, body, rawpath):
    """Primitive-level diagnosis of the field in which the first differing byte lies."""
    if rawpath.startswith("<"):
        return None
    T = lib().types
    try:
        cur = body
        for part in rawpath.split("."):
            m = _PART.match(part)
            cur = (cur.get("_tagged_fields") or {}) if m.group(1) == "_tagged_fields" else cur[m.group(1)]
            for i in re.findall(r"\[(\d+)\]", m.group(2)):
                cur = cur[int(i)]
        t = lib_type_at(ls, rfields, tuple(_IDX.sub("", rawpath).split(".")))
        if t is None:
            return None
        if rawpath.endswith("]"):
            if not isinstance(t, T.Array) or isinstance(t.array_of, (T.Schema, T.Array)):
                return None
            t = t.array_of
        if isinstance(t, T.Array) or isinstance(cur, (list, tuple)) or (isinstance(cur, dict) and t is not T.TaggedFields):
            return None
        return prim_fault(t, cur)
    except (KeyError, IndexError, TypeError, AttributeError):
        return None


def _hx(b, around=None, width=48):
    if len(b) <= width:
        return b.hex() or "<empty>"
    if around is None:
        return f"{b[:width].hex()}...({len(b)} bytes)"
    lo = max(0, around - 8)
    return f"...@{lo}:{b[lo:lo + width].hex()}...({len(b)} bytes)"


def prim_fault(t, val):
    """Does library primitive `t` mis-encode / fail to round-trip `val` judged against what the
    primitive itself claims to be?  -> (site, field, message) or None."""
    T = lib().types
    L = lib()
    try:
        if t is T.TaggedFields:
            want = kwire.encode_tagged_fields(val)
            name = "TaggedFields"
        elif isinstance(t, T.String):
            want = kwire.encode_primitive("string", val, isinstance(t, T.CompactString), True)
            name = type(t).__name__
        elif t in L.prim:
            rt, compact = L.prim[t]
            want = kwire.encode_primitive(rt, val, compact, True)
            name = t.__name__
        else:
            return None
    except kwire.WireError:
        return None  # value outside the primitive's own domain: the struct chose the wrong primitive
    try:
        got = t.encode(val)
    except Exception as e:  # noqa: BLE001
        return (f"types.{name}", f"encode:{type(e).__name__}",
                f"types.{name}.encode({_short(val)}) raises {type(e).__name__}: {e}; the protocol encoding is {_hx(want)}")
    if got != want:
        return (f"types.{name}", "encode",
                f"types.{name}.encode({_short(val)}) = {_hx(got)}, the protocol encoding is {_hx(want)}")
    try:
        buf = io.BytesIO(want)
        back = t.decode(buf)
        rest = buf.read()
    except Exception as e:  # noqa: BLE001
        return (f"types.{name}", f"decode:{type(e).__name__}",
                f"types.{name}.decode({_hx(want)}) raises {type(e).__name__}: {e}")
    if back != val or rest:
        return (f"types.{name}", "decode", f"types.{name}.decode({_hx(want)}) = {_short(back)} (+{len(rest)} bytes left), expected {_short(val)}")
    return None


class _Lazy:
    def __init__(self, fn):
        self.fn = fn

    def __str__(self):
        return self.fn()

    __format__ = lambda self, spec: self.fn()  # noqa: E731


def _short(v):
    r = repr(v)
    return r if len(r) <= 70 else r[:60] + f"...<{len(r)} chars>"


def _enc_assigns(assigns):
    return [[list(p), d] for p, d in assigns]


def _dec_assigns(data):
    return [(tuple(p), d) for p, d in data]


# --------------------------------------------------------------------------- phase "struct"

def check_struct(name, assigns, wrap):
    """-> (findings, facts); findings = [(oracle, sig, msg)]"""
    L = lib()
    C, kind = L.structs[name]
    k, v = C.API_KEY, C.API_VERSION
    sch = kwire.schema(k, v, kind)
    body = build_body(sch.fields, assigns, wrap)
    try:
        ref = kwire.encode_body(k, v, kind, body, strict=True)
    except kwire.WireError as e:
        raise HarnessError(f"reference cannot encode its own vector {name} {assigns}: {e}") from None
    out = []
    used = "" if any(C in b._CLASSES for b in L.builders.values() if hasattr(b, "_CLASSES")) or kind == "response" \
        else " [struct is not in any builder's _CLASSES]"
    varied = ".".join(assigns[0][0]) if assigns else ""
    fault = None
    if len(assigns) >= 1:
        for p, d in assigns:
            t = lib_type_at(C.SCHEMA, sch.fields, p)
            f = field_at(sch.fields, p)
            if t is not None and (f is None or f.type != "array"):
                fault = fault or prim_fault(t, realize(d, f))
    try:
        val = to_lib(C.SCHEMA, sch.fields, body)
    except Misaligned as m:
        demo = ""
        try:
            buf = io.BytesIO(ref)
            dec = C.decode(buf)
            demo = f"; {name}.decode(reference bytes) -> {_short(dec)} with {len(buf.read())} bytes left over"
        except Exception as e:  # noqa: BLE001
            demo = f"; {name}.decode(reference bytes) raises {type(e).__name__}: {e}"
        out.append(("bytes", {"kind": "bytes-mismatch", "struct": name, "field": _IDX.sub("", m.path) + ":layout"},
                    f"{name}: schema does not line up with {sch.name}: {m}{demo}{used}"))
        return out, {"ref": ref, "body": body}
    obj = got = None
    try:
        obj = C(*val)
        got = obj.encode()
    except Exception as e:  # noqa: BLE001
        if fault:
            sig = {"kind": "bytes-mismatch", "struct": fault[0], "field": fault[1]}
            msg = f"{fault[2]} (reached through {name}.{varied})"
        else:
            sig = {"kind": "bytes-mismatch", "struct": name, "field": f"{_IDX.sub('', varied)}:{type(e).__name__}"}
            msg = f"{name}{_short(val)}.encode() raises {type(e).__name__}: {e}; expected {_hx(ref)}{used}"
        out.append(("bytes", sig, msg))
        return out, {"ref": ref, "body": body}
    if got != ref:
        trace = []
        kwire.encode_body(k, v, kind, body, trace=trace)
        off, path, rawpath = first_diff(ref, got, trace, raw=True)
        if not (fault and fault[1].startswith("encode")):
            fault = fault_at(C.SCHEMA, sch.fields, body, rawpath) or fault
        if fault and fault[1].startswith("encode"):
            sig = {"kind": "bytes-mismatch", "struct": fault[0], "field": fault[1]}
            msg = f"{fault[2]} (reached through {name}.{path}: struct bytes {_hx(got, off)} != expected {_hx(ref, off)})"
        else:
            site = schema_diff(C.SCHEMA, sch.fields, sch.flexible)
            sig = {"kind": "bytes-mismatch", "struct": name, "field": site or path}
            msg = (f"{name}{_short(val)}.encode() differs from {sch.name} at byte {off} (field {path}"
                   + (f"; first schema difference at {site}" if site else "") + "): "
                   f"library {_hx(got, off)} expected {_hx(ref, off)}{used}")
        out.append(("bytes", sig, msg))
    try:
        buf = io.BytesIO(got)
        dec = C.decode(buf)
        rest = buf.read()
        ok = (dec == obj) and not rest
        detail = f"decoded {_short(dec)} with {len(rest)} bytes left over"
    except Exception as e:  # noqa: BLE001
        ok = False
        detail = f"decode raises {type(e).__name__}: {e}"
    if not ok:
        if fault:
            sig = {"kind": "roundtrip", "struct": fault[0], "field": "roundtrip"}
            msg = f"{name}.decode({name}{_short(val)}.encode()) != original: {detail}; primitive: {fault[2]}"
        else:
            sig = {"kind": "roundtrip", "struct": name, "field": _IDX.sub("", varied)}
            msg = f"{name}.decode({name}{_short(val)}.encode()) != original: {detail}{used}"
        out.append(("roundtrip", sig, msg))
    return out, {"ref": ref, "got": got, "body": body}


def _struct_shard(arg):
    name, thorough = arg
    L = lib()
    acc = Acc()
    C, kind = L.structs[name]
    try:
        sch = kwire.schema(C.API_KEY, C.API_VERSION, kind)
    except kwire.WireError as e:
        acc.cap(f"no reference table for {name} (api {C.API_KEY} v{C.API_VERSION}): {e}")
        return acc
    n = 0
    for assigns, wrap in vectors(sch, thorough):
        findings, facts = check_struct(name, assigns, wrap)
        acc.count("evaluations")
        acc.count("struct_cases")
        acc.distinct("distinct", ("s", name, repr(assigns), wrap))
        n += 1
        for oracle, sig, msg in findings:
            acc.violation(oracle, sig, {"phase": "struct", "class": name, "assigns": _enc_assigns(assigns), "wrap": wrap}, msg)
    if name in ("FetchResponse_v11", "DeleteRecordsRequest_v2"):
        acc.sample({"struct": name, "vectors": n, "reference_schema": repr(sch)[:400]})
    return acc


# --------------------------------------------------------------------------- phase "pair"

def check_pair(name, assigns, wrap, corr):
    L = lib()
    R, _ = L.structs[name]
    k, v = R.API_KEY, R.API_VERSION
    sch = kwire.schema(k, v, "response")
    body = build_body(sch.fields, assigns, wrap)
    reply = kwire.encode_response(k, v, corr, body, strict=True)
    RT = R.RESPONSE_TYPE
    sig = {"kind": "pairing", "struct": name, "field": f"RESPONSE_TYPE={RT.__name__}"}
    hv = kwire.response_header_version(k, v)
    story = _Lazy(lambda: (
        f"{name} (header version {v}) is answered by a v{v} broker with {sch.name}, response header v{hv}: "
        f"{_hx(reply)}; library parses it with {'ResponseHeader_v1' if R.FLEXIBLE_VERSION else 'ResponseHeader_v0'} + {RT.__name__}"))
    try:
        buf = io.BytesIO(reply)
        hdr = R().parse_response_header(buf)
        resp = RT.decode(buf)
        rest = buf.read()
    except Exception as e:  # noqa: BLE001
        return [("pairing", sig, f"{story} -> raises {type(e).__name__}: {e}")]
    if hdr.correlation_id != corr:
        return [("pairing", sig, f"{story} -> correlation id {hdr.correlation_id} != {corr}")]
    if rest:
        return [("pairing", sig, f"{story} -> {_short(resp)} and {len(rest)} bytes left over ({_hx(rest)})")]
    try:
        exp = RT(*to_lib(RT.SCHEMA, sch.fields, body))
    except Misaligned as m:
        return [("pairing", sig, f"{story} -> {_short(resp)}; layouts differ: {m}")]
    if resp != exp:
        return [("pairing", sig, f"{story} -> {_short(resp)}, expected {_short(exp)}")]
    return []


def _pair_shard(arg):
    name, thorough = arg
    L = lib()
    acc = Acc()
    R, _ = L.structs[name]
    try:
        sch = kwire.schema(R.API_KEY, R.API_VERSION, "response")
    except kwire.WireError as e:
        acc.cap(f"no reference table for the reply of {name}: {e}")
        return acc
    first = True
    for assigns, wrap in vectors(sch, thorough):
        for corr in ((CORR, 0, 2 ** 31 - 1) if first else (CORR,)):
            acc.count("evaluations")
            acc.count("pair_cases")
            acc.distinct("distinct", ("p", name, repr(assigns), wrap, corr))
            for oracle, sig, msg in check_pair(name, assigns, wrap, corr):
                acc.violation(oracle, sig, {"phase": "pair", "class": name, "assigns": _enc_assigns(assigns),
                                            "wrap": wrap, "corr": corr}, msg)
        first = False
    return acc


# --------------------------------------------------------------------------- phase "header"

def check_header(name, corr, client_id):
    L = lib()
    C, _ = L.structs[name]
    k, v = C.API_KEY, C.API_VERSION
    sch = kwire.schema(k, v, "request")
    body = _defaults(sch.fields)
    ref = kwire.encode_request(k, v, corr, client_id, body)
    try:
        obj = C(*to_lib(C.SCHEMA, sch.fields, body))
        hdr = obj.build_request_header(correlation_id=corr, client_id=client_id).encode()
        got = hdr + obj.encode()
    except Misaligned:
        return []  # reported by the struct phase
    except Exception as e:  # noqa: BLE001
        return [("bytes", {"kind": "bytes-mismatch", "struct": name, "field": f"<request header>:{type(e).__name__}"},
                 f"{name}: header/body encode raises {type(e).__name__}: {e}")]
    hlen = 8 + 2 + (len(client_id.encode()) if client_id is not None else 0) + (1 if kwire.is_flexible(k, v) else 0)
    if got[:len(hdr)] != ref[:hlen]:
        return [("bytes", {"kind": "bytes-mismatch", "struct": name, "field": "<request header>"},
                 f"{name}.build_request_header({corr}, {client_id!r}) = {_hx(hdr)}, the protocol wants request header "
                 f"v{kwire.request_header_version(k, v)}: {_hx(ref[:hlen])}")]
    return []


# --------------------------------------------------------------------------- phase "builder"

def _has(k, v, *path):
    fields = kwire.schema(k, v, "request").fields
    for name in path:
        f = next((x for x in fields if x.name == name), None)
        if f is None:
            return False
        fields = f.fields or []
    return True


def _nullable(k, v, name):
    f = next((x for x in kwire.schema(k, v, "request").fields if x.name == name), None)
    return bool(f and f.nullable)


class BM:
    """Parameter model of one builder: grid (ordered: default first), reference translation, and which
    parameter values the version cannot express (name, judged?)."""

    def __init__(self, grid, ref, drops=None):
        self.grid, self.ref, self.drops = grid, ref, drops or (lambda p, v: [])


def _acl_filter(p):
    return {"resource_type_filter": p["resource_type"], "resource_name_filter": p["resource_name"],
            "pattern_type_filter": p["resource_pattern_type_filter"], "principal_filter": p["principal"],
            "host_filter": p["host"], "operation": p["operation"], "permission_type": p["permission_type"]}


def _acl_grid(nullable):
    return dict(resource_type=[2, 1], resource_name=["topic-a", "*"] + ([None] if nullable else []),
                resource_pattern_type_filter=[3, 4, 1], principal=["User:alice"] + ([None] if nullable else []),
                host=["*"] + ([None] if nullable else []), operation=[2, 1], permission_type=[3])


def _acl_drops(k):
    return lambda p, v: [("resource_pattern_type_filter", False)] if p["resource_pattern_type_filter"] != 3 and v < 1 else []


_T3 = [("t", [(0, 10, "meta")])]

BUILDERS = {
    "ProduceRequest": BM(
        dict(transactional_id=[None, "tx", "tré"], required_acks=[1, 0, -1], timeout=[100, 2 ** 31 - 1],
             topics=[[("t", [(0, b"data")])], [], [("t", [(0, b""), (1, b"\x00\x01\x02")]), ("u", [])]]),
        lambda p, v: {"transactional_id": p["transactional_id"], "acks": p["required_acks"], "timeout_ms": p["timeout"],
                      "topic_data": [{"name": t, "partition_data": [{"index": i, "records": r} for i, r in ps]}
                                     for t, ps in p["topics"]]},
        lambda p, v: [("transactional_id", True)] if p["transactional_id"] is not None and not _has(0, v, "transactional_id") else []),
    "FetchRequest": BM(
        dict(max_wait_time=[500], min_bytes=[1], max_bytes=[0x7FFFFFFF, 52428800], isolation_level=[0, 1],
             topics=[[("t", [(0, 10, 1048576)])], [], [("t", [(0, 0, 1), (3, 2 ** 63 - 1, 2 ** 31 - 1)]), ("ü", [])]],
             rack_id=["", "rack-a"]),
        lambda p, v: {"replica_id": -1, "max_wait_ms": p["max_wait_time"], "min_bytes": p["min_bytes"],
                      "max_bytes": p["max_bytes"], "isolation_level": p["isolation_level"], "session_id": 0,
                      "session_epoch": -1, "forgotten_topics_data": [], "rack_id": p["rack_id"],
                      "topics": [{"topic": t, "partitions": [
                          {"partition": i, "current_leader_epoch": -1, "fetch_offset": o, "log_start_offset": -1,
                           "partition_max_bytes": m} for i, o, m in ps]} for t, ps in p["topics"]]},
        lambda p, v: ([("isolation_level", True)] if p["isolation_level"] != 0 and not _has(1, v, "isolation_level") else [])
        + ([("max_bytes", False)] if p["max_bytes"] != 0x7FFFFFFF and not _has(1, v, "max_bytes") else [])
        + ([("rack_id", False)] if p["rack_id"] != "" and not _has(1, v, "rack_id") else [])),
    "OffsetRequest": BM(
        dict(replica_id=[-1], isolation_level=[0, 1],
             topics=[[("t", [(0, -1)])], [("t", [(0, -2)])], [("t", [(0, 0)])], [("t", [(0, 1500000000000)])],
                     [("t", [(0, -1), (1, 5)]), ("u", [(0, -2)])], [], [("t", [(0, 2 ** 63 - 1)])]]),
        lambda p, v: {"replica_id": p["replica_id"], "isolation_level": p["isolation_level"],
                      "topics": [{"name": t, "partitions": [
                          {"partition_index": i, "current_leader_epoch": -1, "timestamp": ts, "max_num_offsets": 1}
                          for i, ts in ps]} for t, ps in p["topics"]]},
        lambda p, v: ([("isolation_level", True)] if p["isolation_level"] != 0 and not _has(2, v, "isolation_level") else [])
        + ([("timestamp", True)] if v == 0 and any(ts >= 0 for _, ps in p["topics"] for _, ts in ps) else [])),
    "FindCoordinatorRequest": BM(
        dict(coordinator_key=["group-a", "", "tré"], coordinator_type=[0, 1]),
        lambda p, v: {"key": p["coordinator_key"], "key_type": p["coordinator_type"]},
        lambda p, v: [("coordinator_type", True)] if p["coordinator_type"] != 0 and not _has(10, v, "key_type") else []),
    "DescribeGroupsRequest": BM(
        dict(groups=[["a", "b"], [], ["ü"]], include_authorized_operations=[False, True]),
        lambda p, v: {"groups": p["groups"], "include_authorized_operations": p["include_authorized_operations"]},
        lambda p, v: [("include_authorized_operations", True)]
        if p["include_authorized_operations"] and not _has(15, v, "include_authorized_operations") else []),
    "MetadataRequest": BM(
        dict(topics=[None, [], ["t"], ["t", "ü"]], allow_auto_topic_creation=[None, True, False]),
        lambda p, v: {"topics": ([] if v == 0 else None) if p["topics"] is None else [{"name": t} for t in p["topics"]],
                      "allow_auto_topic_creation": True if p["allow_auto_topic_creation"] is None else p["allow_auto_topic_creation"]},
        lambda p, v: ([("allow_auto_topic_creation", False)] if p["allow_auto_topic_creation"] is False
                      and not _has(3, v, "allow_auto_topic_creation") else [])
        + ([("topics=[] (means ALL topics in v0)", False)] if p["topics"] == [] and v == 0 else [])),
    "OffsetCommitRequest": BM(
        dict(consumer_group=["g"], consumer_group_generation_id=[-1, 5], consumer_id=["", "member-1"],
             retention_time=[-1, 1000], topics=[_T3, [("t", [(0, 0, ""), (1, 2 ** 63 - 1, None)]), ("u", [])], []]),
        lambda p, v: {"group_id": p["consumer_group"], "generation_id": p["consumer_group_generation_id"],
                      "member_id": p["consumer_id"], "retention_time_ms": p["retention_time"],
                      "topics": [{"name": t, "partitions": [
                          {"partition_index": i, "committed_offset": o, "committed_metadata": m} for i, o, m in ps]}
                          for t, ps in p["topics"]]}),
    "OffsetFetchRequest": BM(
        dict(consumer_group=["g"], partitions=[[("t", [0, 1])], None, [], [("t", []), ("u", [5])]]),
        lambda p, v: {"group_id": p["consumer_group"], "topics": None if p["partitions"] is None else [
            {"name": t, "partition_indexes": ps} for t, ps in p["partitions"]]},
        lambda p, v: [("partitions=None", False)] if p["partitions"] is None and not _nullable(9, v, "topics") else []),
    "JoinGroupRequest": BM(
        dict(group=["g"], session_timeout=[10000], rebalance_timeout=[30000, -1], member_id=["", "member-1"],
             group_instance_id=[None, "", "inst-1"], protocol_type=["consumer"],
             group_protocols=[[("range", b"meta")], [("range", b""), ("roundrobin", b"\x00\x01")], []]),
        lambda p, v: {"group_id": p["group"], "session_timeout_ms": p["session_timeout"],
                      "rebalance_timeout_ms": p["rebalance_timeout"], "member_id": p["member_id"],
                      "group_instance_id": p["group_instance_id"], "protocol_type": p["protocol_type"],
                      "protocols": [{"name": n, "metadata": m} for n, m in p["group_protocols"]]},
        lambda p, v: ([("rebalance_timeout", False)] if p["rebalance_timeout"] != -1 and not _has(11, v, "rebalance_timeout_ms") else [])
        + ([("group_instance_id", False)] if p["group_instance_id"] is not None and not _has(11, v, "group_instance_id") else [])),
    "SyncGroupRequest": BM(
        dict(group=["g"], generation_id=[1, -1], member_id=["member-1"], group_instance_id=[None, "", "inst-1"],
             group_assignment=[[("member-1", b"assign")], [], [("a", b""), ("b", b"\xff")]]),
        lambda p, v: {"group_id": p["group"], "generation_id": p["generation_id"], "member_id": p["member_id"],
                      "group_instance_id": p["group_instance_id"],
                      "assignments": [{"member_id": m, "assignment": a} for m, a in p["group_assignment"]]},
        lambda p, v: [("group_instance_id", False)] if p["group_instance_id"] is not None and not _has(14, v, "group_instance_id") else []),
    "HeartbeatRequest": BM(
        dict(group=["g", ""], generation_id=[1, 2 ** 31 - 1], member_id=["member-1", ""]),
        lambda p, v: {"group_id": p["group"], "generation_id": p["generation_id"], "member_id": p["member_id"]}),
    "LeaveGroupRequest": BM(
        dict(group=["g", ""], member_id=["member-1", ""]),
        lambda p, v: {"group_id": p["group"], "member_id": p["member_id"]}),
    "InitProducerIdRequest": BM(
        dict(transactional_id=[None, "tx"], transaction_timeout_ms=[60000, 2 ** 31 - 1]),
        lambda p, v: {"transactional_id": p["transactional_id"], "transaction_timeout_ms": p["transaction_timeout_ms"]}),
    "AddPartitionsToTxnRequest": BM(
        dict(transactional_id=["tx"], producer_id=[1000, 2 ** 63 - 1], producer_epoch=[0, 32767],
             topics=[[("t", [0, 1])], [], [("t", []), ("u", [7])]]),
        lambda p, v: {"transactional_id": p["transactional_id"], "producer_id": p["producer_id"],
                      "producer_epoch": p["producer_epoch"],
                      "topics": [{"name": t, "partitions": ps} for t, ps in p["topics"]]}),
    "AddOffsetsToTxnRequest": BM(
        dict(transactional_id=["tx"], producer_id=[1000, 2 ** 63 - 1], producer_epoch=[0, 32767], group_id=["g", ""]),
        lambda p, v: {"transactional_id": p["transactional_id"], "producer_id": p["producer_id"],
                      "producer_epoch": p["producer_epoch"], "group_id": p["group_id"]}),
    "EndTxnRequest": BM(
        dict(transactional_id=["tx"], producer_id=[1000, 2 ** 63 - 1], producer_epoch=[0, 32767],
             transaction_result=[True, False]),
        lambda p, v: {"transactional_id": p["transactional_id"], "producer_id": p["producer_id"],
                      "producer_epoch": p["producer_epoch"], "committed": p["transaction_result"]}),
    "TxnOffsetCommitRequest": BM(
        dict(transactional_id=["tx"], group_id=["g"], producer_id=[1000, 2 ** 63 - 1], producer_epoch=[0, 32767],
             topics=[_T3, [("t", [(0, 0, None), (1, 5, "")]), ("u", [])], []]),
        lambda p, v: {"transactional_id": p["transactional_id"], "group_id": p["group_id"],
                      "producer_id": p["producer_id"], "producer_epoch": p["producer_epoch"],
                      "topics": [{"name": t, "partitions": [
                          {"partition_index": i, "committed_offset": o, "committed_metadata": m} for i, o, m in ps]}
                          for t, ps in p["topics"]]}),
    "ApiVersionRequest": BM({}, lambda p, v: {}),
    "ListGroupsRequest": BM({}, lambda p, v: {}),
    "SaslHandShakeRequest": BM(dict(mechanism=["PLAIN", "SCRAM-SHA-256", ""]), lambda p, v: {"mechanism": p["mechanism"]}),
    "SaslAuthenticateRequest": BM(dict(payload=[b"abc", b"", b"\x00\xff"]), lambda p, v: {"auth_bytes": p["payload"]}),
    "CreateTopicsRequest": BM(
        dict(create_topic_requests=[[("t", 3, 1, [], [])], [], [("t", -1, -1, [(0, [1, 2]), (1, [])], [("k", "v"), ("n", None)]),
                                                                ("ü", 1, 1, [], [])]],
             timeout=[1000, 2 ** 31 - 1], validate_only=[False, True]),
        lambda p, v: {"topics": [{"name": t, "num_partitions": n, "replication_factor": r,
                                  "assignments": [{"partition_index": i, "broker_ids": b} for i, b in a],
                                  "configs": [{"name": ck, "value": cv} for ck, cv in c]}
                                 for t, n, r, a, c in p["create_topic_requests"]],
                      "timeout_ms": p["timeout"], "validate_only": p["validate_only"]},
        lambda p, v: [("validate_only", False)] if p["validate_only"] and not _has(19, v, "validate_only") else []),
    "DeleteTopicsRequest": BM(
        dict(topics=[["a", "b"], [], ["ü"]], timeout=[1000, 0]),
        lambda p, v: {"topic_names": p["topics"], "timeout_ms": p["timeout"]}),
    "DescribeAclsRequest": BM(_acl_grid(True), lambda p, v: _acl_filter(p), _acl_drops(29)),
    "CreateAclsRequest": BM(
        _acl_grid(False),
        lambda p, v: {"creations": [{"resource_type": p["resource_type"], "resource_name": p["resource_name"],
                                     "resource_pattern_type": p["resource_pattern_type_filter"],
                                     "principal": p["principal"], "host": p["host"], "operation": p["operation"],
                                     "permission_type": p["permission_type"]}]}, _acl_drops(30)),
    "DeleteAclsRequest": BM(_acl_grid(True), lambda p, v: {"filters": [_acl_filter(p)]}, _acl_drops(31)),
    "AlterConfigsRequest": BM(
        dict(resources=[[(2, "t", [("k", "v"), ("k2", None)])], [], [(2, "t", []), (4, "1", [("a", "")])]],
             validate_only=[False, True]),
        lambda p, v: {"resources": [{"resource_type": rt, "resource_name": rn,
                                     "configs": [{"name": a, "value": b} for a, b in cs]} for rt, rn, cs in p["resources"]],
                      "validate_only": p["validate_only"]}),
    "DescribeConfigsRequest": BM(
        dict(resources=[[(2, "t", None)], [], [(2, "t", ["a", "b"]), (4, "1", [])]], include_synonyms=[False, True]),
        lambda p, v: {"resources": [{"resource_type": rt, "resource_name": rn, "configuration_keys": ks}
                                    for rt, rn, ks in p["resources"]], "include_synonyms": p["include_synonyms"]},
        lambda p, v: [("include_synonyms", False)] if p["include_synonyms"] and not _has(32, v, "include_synonyms") else []),
    "CreatePartitionsRequest": BM(
        dict(topic_partitions=[[("t", (3, None))], [], [("t", (3, [[1, 2], [2, 3]])), ("u", (1, []))]],
             timeout=[1000], validate_only=[False, True]),
        lambda p, v: {"topics": [{"name": t, "count": c, "assignments": None if a is None else [{"broker_ids": b} for b in a]}
                                 for t, (c, a) in p["topic_partitions"]],
                      "timeout_ms": p["timeout"], "validate_only": p["validate_only"]}),
    "DeleteGroupsRequest": BM(dict(group_names=[["a", "b"], [], ["ü"]]), lambda p, v: {"groups_names": p["group_names"]}),
    "DescribeClientQuotasRequest": BM(
        dict(components=[[("user", 0, "alice")], [], [("user", 1, None), ("client-id", 2, None)]], strict=[False, True]),
        lambda p, v: {"components": [{"entity_type": e, "match_type": m, "match": x} for e, m, x in p["components"]],
                      "strict": p["strict"]}),
    "AlterPartitionReassignmentsRequest": BM(
        dict(timeout_ms=[1000], topics=[[("t", [(0, [1, 2], {})], {})], [], [("t", [(0, None, {}), (1, [], {})], {}), ("u", [], {})],
                                        [("t", [(0, [1], {1: b"x"})], {2: b"yz"})]],
             tags=[{}, {1: b"ab"}]),
        lambda p, v: {"timeout_ms": p["timeout_ms"], "_tagged_fields": p["tags"], "topics": [
            {"name": t, "_tagged_fields": tt, "partitions": [
                {"partition_index": i, "replicas": r, "_tagged_fields": pt} for i, r, pt in ps]}
            for t, ps, tt in p["topics"]]}),
    "ListPartitionReassignmentsRequest": BM(
        dict(timeout_ms=[1000], topics=[[("t", [0, 1], {})], None, [], [("t", [], {3: b"q"})]], tags=[{}, {1: b"ab"}]),
        lambda p, v: {"timeout_ms": p["timeout_ms"], "_tagged_fields": p["tags"], "topics": None if p["topics"] is None else [
            {"name": t, "partition_indexes": ps, "_tagged_fields": tt} for t, ps, tt in p["topics"]]}),
    "DeleteRecordsRequest": BM(
        dict(topics=[[("t", [(0, 5)])], [], [("t", [(0, -1), (1, 2 ** 63 - 1)]), ("u", [])]], timeout_ms=[1000],
             tags=[None, {}, {1: b"ab"}]),
        lambda p, v: {"topics": [{"name": t, "partitions": [{"partition_index": i, "offset": o} for i, o in ps]}
                                 for t, ps in p["topics"]], "timeout_ms": p["timeout_ms"],
                      "_tagged_fields": (p["tags"] or {}) if kwire.is_flexible(21, v) else {}},
        # the builder treats any non-None `tags` (even {}) as "set" and refuses it below v2: legitimate, not judged
        lambda p, v: [("tags", False)] if p["tags"] is not None and not kwire.is_flexible(21, v) else []),
}

JUDGED_KINDS = {"transactional_id": "transactional id", "isolation_level": "isolation level",
                "coordinator_type": "coordinator type", "timestamp": "timestamp search",
                "include_authorized_operations": "authorized operations"}


def _params(model, choice):
    return {name: vals[i] for (name, vals), i in zip(model.grid.items(), choice)}


def check_builder(bname, choice, rng):
    """-> (findings, outcome string, unjudged drops)"""
    L = lib()
    B = L.builders[bname]
    model = BUILDERS[bname]
    p = _params(model, choice)
    k = B.API_KEY
    supported = sorted({c.API_VERSION for c in B._CLASSES})
    try:
        req = B(**p)
    except Exception as e:  # noqa: BLE001
        raise HarnessError(f"parameter model of {bname} does not fit its constructor: {type(e).__name__}: {e}") from None
    versions = {} if rng is None else {k: tuple(rng)}
    st = exc = None
    try:
        st = req.prepare(versions)
    except Exception as e:  # noqa: BLE001
        exc = e
    what = _Lazy(lambda: f"{bname}({', '.join(f'{a}={_short(b)}' for a, b in p.items())}).prepare({versions})")
    if rng is None:
        inter = supported[:1] if B.ALLOW_UNKNOWN_API_VERSION else []
    else:
        inter = [v for v in supported if rng[0] <= v <= rng[1]]
    if not inter:
        if exc is None:
            ver = getattr(st, "API_VERSION", None)
            return ([("version", {"kind": "version-choice", "struct": bname, "field": "empty-intersection"},
                      f"{what}: client versions {supported} and the broker range have no common version, yet a "
                      f"v{ver} request ({type(st).__name__}) was built")], "built-outside-range", [])
        return [], f"no-common-version:{type(exc).__name__}", []
    want = max(inter)
    drops = model.drops(p, want)
    judged = [n for n, j in drops if j]
    unjudged = [n for n, j in drops if not j]
    if exc is not None:
        if isinstance(exc, L.IBV) and drops:
            return [], "rejected:" + ",".join(judged + unjudged), []
        if judged:
            return ([("drop", {"kind": "silent-drop", "struct": bname, "field": f"{judged[0]}:{type(exc).__name__}"},
                      f"{what}: v{want} cannot express {JUDGED_KINDS[judged[0]]}; expected IncompatibleBrokerVersion, got "
                      f"{type(exc).__name__}: {exc}")], "wrong-exception", [])
        return ([("version", {"kind": "version-choice", "struct": bname, "field": f"raises:{type(exc).__name__}"},
                  f"{what}: v{want} is supported by both sides and can express every parameter, but prepare() raises "
                  f"{type(exc).__name__}: {exc}")], "spurious-raise", [])
    try:
        hdr = st.build_request_header(correlation_id=CORR, client_id=CLIENT).encode()
        got = hdr + st.encode()
    except Exception as e:  # noqa: BLE001
        return ([("bytes", {"kind": "bytes-mismatch", "struct": bname, "field": f"encode:{type(e).__name__}"},
                  f"{what} -> {type(st).__name__}: encode raises {type(e).__name__}: {e}")], "encode-raises", [])
    hk, hv = _struct.unpack(">hh", got[:4])
    if hk != k or hv != want:
        return ([("version", {"kind": "version-choice", "struct": bname, "field": "not-highest-common"},
                  f"{what}: request header says api_key={hk} version={hv}; highest version in broker range ∩ client "
                  f"versions {supported} is {want} ({type(st).__name__})")], "wrong-version", [])
    if judged:
        return ([("drop", {"kind": "silent-drop", "struct": bname, "field": judged[0]},
                  f"{what}: chose v{want}, which has no field for {JUDGED_KINDS[judged[0]]}; the value was dropped "
                  f"silently instead of raising IncompatibleBrokerVersion (sent {_hx(got)})")], "silent-drop", [])
    body = model.ref(p, want)
    ref = kwire.encode_request(k, want, CORR, CLIENT, body)
    if got != ref:
        trace = []
        kwire.encode_body(k, want, "request", body, trace=trace)
        hl = len(ref) - len(kwire.encode_body(k, want, "request", body))
        off, path, rawpath = first_diff(ref[hl:], got[hl:], trace, raw=True) if got[:hl] == ref[:hl] \
            else (0, "<request header>", "<request header>")
        fault = fault_at(type(st).SCHEMA, kwire.schema(k, want, "request").fields, body, rawpath)
        if fault and fault[1].startswith("encode"):
            sig = {"kind": "bytes-mismatch", "struct": fault[0], "field": fault[1]}
            msg = f"{fault[2]} (reached through {what} -> {type(st).__name__})"
        else:
            sig = {"kind": "bytes-mismatch", "struct": bname, "field": path}
            msg = (f"{what} -> {type(st).__name__}: bytes differ from the protocol encoding of these parameters at "
                   f"body byte {off} (field {path}): library {_hx(got[hl:], off)} expected {_hx(ref[hl:], off)}")
        return [("bytes", sig, msg)], "bytes-differ", unjudged
    return [], f"v{want}" + ("(dropped:" + ",".join(unjudged) + ")" if unjudged else ""), unjudged


def _ranges(hi):
    yield None
    for lo in range(0, hi + 1):
        for h in range(lo, hi + 1):
            yield (lo, h)


def _builder_shard(arg):
    bname, _thorough = arg
    L = lib()
    acc = Acc()
    B = L.builders[bname]
    model = BUILDERS[bname]
    declared = [c.API_VERSION for c, _ in L.structs.values() if c.API_KEY == B.API_KEY]
    max_known = max(declared + [c.API_VERSION for c in B._CLASSES])
    dropped = {}
    for rng in _ranges(max_known + 1):
        for choice in itertools.product(*[range(len(v)) for v in model.grid.values()]):
            findings, outcome, unjudged = check_builder(bname, choice, rng)
            acc.count("evaluations")
            acc.count("builder_cases")
            acc.distinct("distinct", ("b", bname, choice, rng))
            acc.distinct("outcomes", (bname, outcome))
            for n in unjudged:
                dropped.setdefault(n, set()).add(outcome.split("(")[0])
                acc.count("unjudged_silent_drops")
            for oracle, sig, msg in findings:
                acc.violation(oracle, sig, {"phase": "builder", "builder": bname, "choice": list(choice),
                                            "range": list(rng) if rng else None}, msg)
    if dropped:
        acc.note(f"unjudged_dropped[{bname}]", {k: sorted(v) for k, v in dropped.items()})
    return acc


# --------------------------------------------------------------------------- phase "names"

def name_map():
    """(api_key, kind, library field path) -> {protocol field path: [(version, class name)]} by position."""
    L = lib()
    T = L.types
    out = {}

    def walk(ls, rfields, key, kind, v, cname, lp, rp):
        def flat(sc):
            for n, t in zip(sc.names, sc.fields):
                if isinstance(t, T.Schema):
                    yield from flat(t)
                elif t is not T.TaggedFields:
                    yield n, t

        items = list(flat(ls))
        if len(items) != len(rfields):
            return  # reported by the struct phase
        for (n, t), rf in zip(items, rfields):
            out.setdefault((key, kind, lp + n), {}).setdefault(rp + rf.name, []).append((v, cname))
            if isinstance(t, T.Array) and isinstance(t.array_of, T.Schema) and rf.fields:
                walk(t.array_of, rf.fields, key, kind, v, cname, lp + n + ".", rp + rf.name + ".")

    for cname, (C, kind) in L.structs.items():
        try:
            sch = kwire.schema(C.API_KEY, C.API_VERSION, kind)
        except kwire.WireError:
            continue
        walk(C.SCHEMA, sch.fields, C.API_KEY, kind, C.API_VERSION, cname, "", "")
    return out


def check_names(key, kind, libpath, nm=None):
    """A library field name must denote the same protocol field in every version of a message (attribute
    access, keyword construction and to_object() go by name).  Judged only across versions of one message."""
    d = (nm or name_map()).get((key, kind, libpath), {})
    if len(d) <= 1:
        return []
    ranked = sorted(d.items(), key=lambda kv: (-len(kv[1]), kv[0]))
    top = len(ranked[0][1])
    major = [rp for rp, users in ranked if len(users) == top]
    out = []
    for rp, users in ranked:
        if len(major) == 1 and rp == major[0]:
            continue
        for v, cname in users:
            others = {o: sorted(x for x, _ in u) for o, u in d.items() if o != rp}
            out.append(("roundtrip", {"kind": "roundtrip", "struct": cname, "field": f"{libpath}:name"},
                        f"{cname}: the field named {libpath!r} sits at the wire position of protocol field "
                        f"{kwire.API_NAMES.get(key)}.{kind}.{rp}, but in other versions of the same message that name "
                        f"denotes {others}; values read or passed by name (attributes, keyword construction, "
                        f"to_object()) are those of a different field"))
    return out


# --------------------------------------------------------------------------- unreachable primitives (listed, not judged)

def _primitive_report():
    L = lib()
    T = L.types
    used = set()

    def walk(t):
        if isinstance(t, T.Schema):
            for f in t.fields:
                walk(f)
        elif isinstance(t, T.Array):
            used.add(type(t).__name__)
            walk(t.array_of)
        elif isinstance(t, T.String):
            used.add(type(t).__name__)
        else:
            used.add(t.__name__)

    for c, _ in L.structs.values():
        walk(c.SCHEMA)
    allp = [n for n, c in vars(T).items() if isinstance(c, type) and c.__module__ == T.__name__
            and hasattr(c, "encode") and n != "Schema"]
    unreachable = sorted(set(allp) - used)
    probes = {}

    def zz(n, bits):
        return ((n << 1) ^ (n >> (bits - 1))) & ((1 << bits) - 1)

    def uv(n):
        out = bytearray()
        while n >= 0x80:
            out.append((n & 0x7F) | 0x80)
            n >>= 7
        out.append(n)
        return bytes(out)

    for n, bits in (("VarInt32", 32), ("VarInt64", 64)):
        cls = getattr(T, n, None)
        if cls is None:
            continue
        bad = []
        for x in (0, 1, -1, 63, 64, -64, -65, 300, -300, 2 ** 31 - 1, -2 ** 31) + ((2 ** 63 - 1, -2 ** 63) if bits == 64 else ()):
            try:
                got = cls.encode(x)
            except Exception as e:  # noqa: BLE001
                got = f"{type(e).__name__}"
            if got != uv(zz(x, bits)):
                bad.append(x)
        probes[n] = {"mis-encoded": bad}
    return {"used_by_structs": sorted(used), "not_reachable_from_any_struct": unreachable, "probes_not_judged": probes,
            "non_api_structs_not_covered": L.helper_structs}


# --------------------------------------------------------------------------- run / replay

def run(ctx):
    L = lib()
    thorough = not ctx.quick
    ctx.rule = (
        "struct phase: every RequestStruct/Response class found by reflection (modules of aiokafka.protocol + "
        "__subclasses__) x [all-default vector] + [each field at every depth, each tagged-field slot, in turn x every "
        "boundary value of its reference wire type: int min/-1/0/1/max, bool, float64 extremes, null where nullable, "
        "strings ''/'a'/non-ASCII/byte lengths 126,127,128,255,256,16382,16383,16384,32767, bytes of length "
        "0,1,4,126,127,128,16382,16383,16384,70000, arrays null/0/1/2 elements (compact arrays also 126,127,16382,"
        "16383), tagged fields {} / tag 0,1,127,128,16384 / data length 0,1,127,128,16384 / two tags]"
        + ("; thorough adds the varied element as 2nd element of its enclosing arrays and every pair of fields x "
           "the full value sets (except two multi-KB values together), and every triple of fields x {null, two extremes}" if thorough else "")
        + "; pair phase: every RequestStruct x the same vectors over the reference response of its header version; "
        "header phase: request header x correlation id {0,1,2^31-1} x client id {'' ,ascii, non-ASCII, null}; "
        "names phase: every library field name (all depths) x all versions of its message must map to one protocol field; "
        "builder phase: every Request builder x {api key not advertised} + every (min,max) with 0<=min<=max<=max_known+1 "
        "x full cross product of its parameter grid; distinct = distinct (phase, class, vector) cases")
    ctx.assumptions += [
        "reference = vf.kwire tables transcribed by hand from the Kafka message definitions (validated by "
        "python -m vf.kwire.selftest); a table error would be a false alarm to be fixed in the table",
        "builder reference translation (parameters -> protocol body) is written by hand per builder in C11.BUILDERS; "
        "judged parameter kinds are exactly the five named by the property, other version-dropped parameters are "
        "listed in coverage.unjudged_dropped[...] and not judged",
        "'transactional id set' means a non-empty string (the library treats '' as unset)",
        "when broker range ∩ client versions is empty any exception from prepare() is accepted",
        "field NAMES are judged only for cross-version consistency inside the library (same name = same protocol "
        "field in every version of a message); a name that is wrong in every version is not detectable",
        "primitive codecs not reachable from any request/response struct are listed (coverage.primitives) and not judged",
        "end-to-end pairing through a real AIOKafkaConnection is exercised by the simulated-broker checks, not here",
    ]
    ctx.bounds = {"value_vectors": "1-wise" + (" + 2-wise + 3-wise(extremes) + second-element" if thorough else ""),
                  "broker_ranges": "all 0<=min<=max<=max_known+1 plus unknown", "string_len_max": 32767,
                  "bytes_len_max": 70000, "array_len_max": 16383}
    names = list(L.structs)
    reqs = [n for n in names if L.structs[n][1] == "request"]
    ctx.note("structs_found", len(names))
    ctx.note("request_structs", len(reqs))
    ctx.note("builders_found", sorted(L.builders))
    for b in sorted(set(L.builders) - set(BUILDERS)):
        ctx.cap(f"builder {b} has no parameter model in C11.BUILDERS (new builder?) - not exercised")
    for b in sorted(set(BUILDERS) - set(L.builders)):
        ctx.note(f"model_without_builder[{b}]", "builder no longer exists")
    only = getattr(ctx, "only", None)
    shards = ([("s", n) for n in names] + [("p", n) for n in reqs]
              + [("b", b) for b in sorted(L.builders) if b in BUILDERS])
    if only:
        shards = [s for s in shards if only in s[1]]
    # biggest first so that the pool drains evenly
    shards.sort(key=lambda s: (s[0] != "b", -len(repr(L.structs[s[1]][0].SCHEMA.fields)) if s[0] != "b" else 0))
    ctx.pmap(_dispatch, [(ph, n, thorough) for ph, n in shards])
    for n in reqs:
        if only and only not in n:
            continue
        C = L.structs[n][0]
        try:
            kwire.schema(C.API_KEY, C.API_VERSION, "request")
        except kwire.WireError:
            continue
        for corr, cid in ((0, CLIENT), (1, CLIENT), (2 ** 31 - 1, CLIENT), (CORR, ""), (CORR, "клиент-é"), (CORR, None)):
            ctx.count("evaluations")
            ctx.count("header_cases")
            ctx.distinct("distinct", ("h", n, corr, cid))
            for oracle, sig, msg in check_header(n, corr, cid):
                ctx.violation(oracle, sig, {"phase": "header", "class": n, "corr": corr, "client_id": cid}, msg)
    nm = name_map()
    for (key, kind, libpath) in sorted(nm):
        if only and only not in libpath:
            continue
        ctx.count("evaluations")
        ctx.count("name_cases")
        ctx.distinct("distinct", ("n", key, kind, libpath))
        for oracle, sig, msg in check_names(key, kind, libpath, nm):
            ctx.violation(oracle, sig, {"phase": "names", "api_key": key, "kind": kind, "libpath": libpath}, msg)
    ctx.note("primitives", _primitive_report())
    ctx.sample({"builder": "FetchRequest", "client_versions": sorted({c.API_VERSION for c in L.builders["FetchRequest"]._CLASSES})
                if "FetchRequest" in L.builders else None})


def _dispatch(arg):
    ph, name, thorough = arg
    if ph == "s":
        return _struct_shard((name, thorough))
    if ph == "p":
        return _pair_shard((name, thorough))
    return _builder_shard((name, thorough))


def replay(ctx, data):
    L = lib()
    ph = data.get("phase")
    if ph == "struct":
        name, assigns, wrap = data["class"], _dec_assigns(data["assigns"]), data.get("wrap", 1)
        C, kind = L.structs[name]
        findings, facts = check_struct(name, assigns, wrap)
        print(f"struct {name} (api {kwire.API_NAMES.get(C.API_KEY)} v{C.API_VERSION} {kind}); varied: "
              f"{[('.'.join(p), d) for p, d in assigns] or 'nothing (all defaults)'}; wrap={wrap}")
        print(f"  reference schema: {kwire.schema(C.API_KEY, C.API_VERSION, kind)!r}"[:1500])
        print(f"  body: {_short(facts.get('body'))}")
        print(f"  reference bytes: {_hx(facts['ref'], None, 200)}")
        if facts.get("got") is not None:
            print(f"  library bytes:   {_hx(facts['got'], None, 200)}")
    elif ph == "pair":
        findings = check_pair(data["class"], _dec_assigns(data["assigns"]), data.get("wrap", 1), data["corr"])
        print(f"pairing of {data['class']}; reply varied: {data['assigns'] or 'nothing (all defaults)'}")
    elif ph == "header":
        findings = check_header(data["class"], data["corr"], data["client_id"])
        print(f"request header of {data['class']} corr={data['corr']} client_id={data['client_id']!r}")
    elif ph == "names":
        findings = check_names(data["api_key"], data["kind"], data["libpath"])
        print(f"field name {data['libpath']!r} of {kwire.API_NAMES.get(data['api_key'])} {data['kind']} across versions: "
              f"{name_map().get((data['api_key'], data['kind'], data['libpath']))}")
    elif ph == "builder":
        rng = tuple(data["range"]) if data["range"] else None
        findings, outcome, unjudged = check_builder(data["builder"], tuple(data["choice"]), rng)
        B = L.builders[data["builder"]]
        print(f"builder {data['builder']} params={_params(BUILDERS[data['builder']], data['choice'])} broker range={rng} "
              f"client versions={sorted({c.API_VERSION for c in B._CLASSES})} -> outcome {outcome}; unjudged drops {unjudged}")
    else:
        print("unknown replay data", json.dumps(data)[:300])
        return 1
    for oracle, sig, msg in findings:
        print(f"  STILL FAILS [{oracle}] {json.dumps(sig, sort_keys=True)}\n    {msg}")
    if not findings:
        print("  passes now")
    return 1 if findings else 0
