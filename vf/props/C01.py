"""C01 - per-partition produce order; no loss / duplication under retriable faults.

Stateless deviation-bounded exhaustive exploration of the real AIOKafkaProducer (accumulator, sender,
transaction manager, client, connections) against the simulated cluster (vf.scen_producer).
Oracles (scen_producer): (a) two-in-flight monitor at the instant a ProduceRequest is written,
(b) presented sequences gap-free / not reused / inside 0..2^31-1, (c) log content vs accepted sends.
"""
from vf import explore, scen_producer

LEVEL = "model_checking"

RETRIABLE = [6, 5, 3, 7, 19, 20]  # NOT_LEADER, LEADER_NOT_AVAILABLE, UNKNOWN_TOPIC_OR_PARTITION, REQUEST_TIMED_OUT, NOT_ENOUGH_REPLICAS(_AFTER_APPEND)

PROG_A = [[(0, 1000), (0, 1001)], [(0, 1002), (1, 1003)]]  # two tasks sharing partition 0; partition 1 on the other broker
PROG_B = [[(0, 1000), (1, 1001), (0, 1002)], [(0, 1003), (0, 1004)]]
PROG_W = [[(0, 1000), (0, 1001), (0, 1002)]]  # one task, three sends, for sequence wrap


# budget vectors: an execution is explored iff its (r, p, f) deviation counts fit inside one of them
QUICK_B = [{"r": 1, "f": 1}, {"p": 1, "f": 1}, {"r": 1, "p": 1}, {"r": 2}, {"f": 2}]
# (triples with a mid-cascade injection - {r1,p1,f1}, {r2,p1}, {p2} - are ~10^6 executions per scenario: a 3.4*10^6 run with them
# completed clean once in 2.9 h; the registered thorough tier keeps to what finishes in minutes)
THOROUGH_SMALL = QUICK_B + [{"r": 2, "f": 1}]
THOROUGH_B = QUICK_B


def scenarios(ctx):
    quick = ctx.quick
    out = []

    def add(name, params, bounds):
        params = dict(params)
        params["check_c02"] = False
        out.append((name, params, bounds))

    base_f = {"faults": ["drop-before", "drop-after", "lose", "err"], "errs": {"Produce": RETRIABLE, "Metadata": []},
              "fault_apis": ["Produce", "Metadata"]}
    modes = [("idem", {"idempotent": True}), ("acks1", {"acks": 1}), ("acksall", {"acks": -1})]
    for mname, m in modes:
        for bname, b in (("single", {"batching": "single"}), ("multi", {"batching": "multi"}),
                         ("gzip", {"batching": "multi", "compression": "gzip"})):
            for base in ("net", "app"):
                p = dict(base_f, **m, **b, baseline=base, program=PROG_A, leader_move=True)
                if quick and bname == "gzip" and base == "net":
                    continue
                add(f"{mname}-{bname}-{base}", p, QUICK_B if quick else (THOROUGH_SMALL if bname == "single" else THOROUGH_B))
    # the same ordering / in-flight / sequence clauses for a transactional producer (one open transaction): partitions are
    # additionally muted while their AddPartitionsToTxn is pending
    for base in ("net", "app"):
        p = dict(base_f, idempotent=True, transactional=True, batching="single", baseline=base, program=PROG_A, leader_move=True,
                 fault_apis=["Produce", "Metadata"])
        add(f"txn-single-{base}", p, [{"r": 1, "f": 1}] if quick else THOROUGH_B)
    # sequence counter start values, including ones that wrap inside the run
    for s0 in (2**31 - 3, 2**31 - 2, 2**31 - 1):
        for base in ("net", "app"):
            add(f"wrap-{s0}-{base}", dict(base_f, idempotent=True, batching="single", baseline=base, program=PROG_W, s0=s0),
                [{"f": 1}, {"r": 1}] if quick else THOROUGH_B)
        add(f"wrap-multi-{s0}", dict(base_f, idempotent=True, batching="multi", baseline="app", program=PROG_W, s0=s0),
            [{"f": 1}, {"r": 1}] if quick else QUICK_B)
    if not quick:
        for mname, m in modes:
            add(f"{mname}-single-app-progB", dict(base_f, **m, batching="single", baseline="app", program=PROG_B, leader_move=True), QUICK_B)
            add(f"{mname}-3brokers", dict(base_f, **m, batching="single", baseline="net", program=PROG_A, leader_move=True, brokers=3), QUICK_B)
    return out


def run(ctx):
    ctx.rule = ("every schedule of environment events (per-connection FIFO deliveries, application gates, timers, faults) whose "
                "deviation counts (r reorderings, p mid-cascade injections, f faults) fit one of the budget vectors, around the "
                "net-eager and app-eager baselines, each executed on the real producer from a fresh loop")
    ctx.assumptions += [
        "simulated cluster follows Kafka's produce/idempotence rules (DESIGN E4)",
        "faults limited to the retriable alphabet of the property",
        "timers fire only at loop-iteration boundaries",
    ]
    only = getattr(ctx, "only", None)
    scs = [s for s in scenarios(ctx) if not only or only in s[0]]
    ctx.bounds = {"budget_vectors": {name: b for name, _, b in scs}}
    counts = explore.explore_many(ctx, [(name, scen_producer.make, params, bounds) for name, params, bounds in scs])
    ctx.note("executions_per_scenario", counts)
    ctx.sample({"scenario": scs[0][0], "params": scs[0][1]})
    if len(ctx.sets.get("outcomes", ())) < 2:
        ctx.violation("vacuity", {"what": "single-outcome"}, {}, "exploration produced a single outcome: nothing collided")


def replay(ctx, data):
    res, same = explore.replay_execution(scen_producer.make, data)
    if not same:
        print("REPLAY NOT DETERMINISTIC")
        return 2
    return 1 if res.violations else 0
