"""C14 - assignors give each subscribed partition exactly one subscribed owner, balanced.

Bounded exhaustive enumeration (vf.assign_enum): <=4 members x <=3 topics x {no metadata, 0..4
partitions} per topic x every non-empty subscription per member; the real range / roundrobin / sticky
assign() on a real ClusterMetadata, judged by oracles written from the property text.

Phases per input I = (layout, subscriptions):
  fresh      range, roundrobin, sticky with no user data
  fresh_rev  sticky, every second member lists its topics in reverse order (a set has no order; the
             real coordinator sends list(set))
  same       sticky, previous assignment = sticky(I) carried through on_assignment()/metadata()
  drop j     sticky on I minus member j, previous assignment = sticky(I)            (member left)
  add j      sticky on I, previous assignment = sticky(I minus j), j has none       (member joined)
"""
import itertools

from vf import assign_enum as E
from vf.runner import Acc

LEVEL = "exploration"

# quick tier: sticky on 4 members x 3 topics only for layouts with at most this many partitions in total
QUICK_STICKY_43_MAX_PARTS = 5


def _assignors():
    from aiokafka.coordinator.assignors.range import RangePartitionAssignor
    from aiokafka.coordinator.assignors.roundrobin import RoundRobinPartitionAssignor

    return {"range": RangePartitionAssignor, "roundrobin": RoundRobinPartitionAssignor}


def _desc(states, subs):
    return {"metadata": {E.TOPICS[i]: ("none" if s is None else s) for i, s in enumerate(states)},
            "subscriptions": {k: list(v) for k, v in subs.items()}}


def _fresh(cluster, subs, cache):
    """sticky(I) with no user data; shared between the phases of one input inside a shard."""
    if cache is None:
        return E.sticky_round(cluster, subs, {})
    key = tuple(subs.items())
    got = cache.get(key)
    if got is None:
        got = cache[key] = E.sticky_round(cluster, subs, {})
    return got


def _run_phase(assignor, phase, states, masks, plain=None, cache=None):
    """Execute one (assignor, phase) on one input. Returns (subs_of_the_judged_round, result | None,
    problem | None, prev_result | None). problem = (kind, message) when assign() raised / hung, or
    ('skip', why) when the preparatory round was itself invalid (judged elsewhere)."""
    ids = E.member_ids(len(masks))
    cluster = E.cluster_for(tuple(states))
    spec = E.partitions_spec(states)
    subs = {ids[i]: E.topics_of(x) for i, x in enumerate(masks)}
    kind = phase[0]
    try:
        if assignor != "sticky":
            cls = (plain or _assignors())[assignor]
            res, _ = E.plain_round(cls, cluster, subs)
            return subs, res, None, None
        if kind == "fresh":
            res, _ = _fresh(cluster, subs, cache)
            return subs, res, None, None
        if kind == "fresh_rev":
            s2 = {k: (tuple(reversed(v)) if i % 2 else v) for i, (k, v) in enumerate(subs.items())}
            res, _ = E.sticky_round(cluster, s2, {})
            return subs, res, None, None
        if kind == "same":
            r1, w1 = _fresh(cluster, subs, cache)
            if E.check_valid(spec, subs, r1):
                return subs, None, ("skip", "round 1 invalid"), r1
            res, _ = E.sticky_round(cluster, subs, {k: [(1, w1[k])] for k in subs})
            return subs, res, None, r1
        if kind == "drop":
            j = phase[1]
            r1, w1 = _fresh(cluster, subs, cache)
            if E.check_valid(spec, subs, r1):
                return subs, None, ("skip", "round 1 invalid"), r1
            s2 = {k: v for i, (k, v) in enumerate(subs.items()) if i != j}
            res, _ = E.sticky_round(cluster, s2, {k: [(1, w1[k])] for k in s2})
            return s2, res, None, r1
        if kind == "add":
            j = phase[1]
            s1 = {k: v for i, (k, v) in enumerate(subs.items()) if i != j}
            r1, w1 = _fresh(cluster, s1, cache)
            if E.check_valid(spec, s1, r1):
                return subs, None, ("skip", "round 1 invalid"), r1
            res, _ = E.sticky_round(cluster, subs, {k: [(1, w1[k])] for k in s1})
            return subs, res, None, r1
        raise ValueError(phase)
    except E.AssignTimeout:
        return subs, None, ("no_return", f"assign() did not return within {E.ASSIGN_TIMEOUT_S}s"), None
    except Exception as e:  # noqa: BLE001 - any exception out of assign() is a failure to assign
        return subs, None, ("exception:" + type(e).__name__, f"assign() raised {type(e).__name__}: {e}"), None


def _judge(assignor, states, subs, res):
    spec = E.partitions_spec(states)
    bad = [("valid", k, msg) for k, msg in E.check_valid(spec, subs, res)]
    if bad:
        return bad  # balance of an invalid assignment is meaningless
    if assignor == "roundrobin":
        if len({frozenset(v) for v in subs.values()}) == 1:
            bad += [("balance", k, msg) for k, msg in E.check_total_balance(res)]
    elif assignor == "range":
        bad += [("balance", k, msg) for k, msg in E.check_range_balance(spec, subs, res)]
    else:
        bad += [("balance", k, msg) for k, msg in E.check_kip54_balance(subs, res)]
    return bad


def _one(acc, mv, assignor, phase, states, masks, plain=None, cache=None):
    subs, res, problem, prev = _run_phase(assignor, phase, states, masks, plain, cache)
    kind = phase[0]
    if problem and problem[0] == "skip":
        acc.count("skipped_preparatory_round_invalid")
        return None
    acc.count("evaluations")
    acc.count(f"{assignor}_{kind}")
    replay = {"assignor": assignor, "phase": list(phase), "states": list(states), "masks": list(masks)}
    size = E.input_size(states, masks) + (len(phase),)
    if problem:
        if problem[0] == "no_return":
            acc.count("assign_hangs")
        mv.add(size, "assign_returns", {"assignor": assignor, "phase": kind, "kind": problem[0]}, replay,
               f"{assignor} [{kind}] {problem[1]} on {_desc(states, subs)}")
        return None
    for oracle, k, msg in _judge(assignor, states, subs, res):
        mv.add(size, oracle, {"assignor": assignor, "phase": kind, "kind": k}, replay,
               f"{assignor} [{' '.join(map(str, phase))}] {msg}; input {_desc(states, subs)}; result {res}"
               + (f"; previous {prev}" if prev else ""))
    return res


def _shard(sh):
    T, m, li, what = sh
    E.quiet_logs()
    plain = _assignors()
    acc = Acc()
    mv = E.MinViolations()
    states = E.layouts(T)[li]
    for masks in E.sub_vectors(T, m):
        acc.distinct("distinct", E.case_code(T, states, masks))
        if acc.counts.get("assign_hangs", 0) > E.MAX_HANGS_PER_SHARD:
            acc.cap(f"a shard was abandoned after {E.MAX_HANGS_PER_SHARD + 1} assign() calls that did not return")
            break
        acc.count("inputs_" + what)
        cache = {}
        if what == "plain":
            for a in ("range", "roundrobin"):
                _one(acc, mv, a, ("fresh",), states, masks, plain)
        elif what == "sticky":
            _one(acc, mv, "sticky", ("fresh",), states, masks, cache=cache)
            _one(acc, mv, "sticky", ("same",), states, masks, cache=cache)
        elif what == "sticky_rev":
            if any(x & (x - 1) for i, x in enumerate(masks) if i % 2):  # otherwise identical to 'fresh'
                _one(acc, mv, "sticky", ("fresh_rev",), states, masks)
        elif what == "churn":
            for j in range(m):
                _one(acc, mv, "sticky", ("drop", j), states, masks, cache=cache)
                _one(acc, mv, "sticky", ("add", j), states, masks, cache=cache)
    acc.mv = mv
    return acc


def _plan(ctx):
    shards = []
    full = E.shard_list(4, 3)
    nparts = lambda s: sum(x or 0 for x in E.layouts(s[0])[s[2]])  # noqa: E731
    for s in full:
        T, m, li = s
        shards.append(s + ("plain",))
        if ctx.quick and T == 3 and m == 4 and nparts(s) > QUICK_STICKY_43_MAX_PARTS:
            continue
        shards.append(s + ("sticky",))
    for s in full:
        T, m, li = s
        if m < 2:
            continue
        if ctx.quick and not (m <= 3 and T <= 2):
            continue
        shards.append(s + ("churn",))
        shards.append(s + ("sticky_rev",))
    return shards


def run(ctx):
    ctx.rule = ("one input = (topic universe size T, per-topic state in {no metadata, 0..4 partitions}, per-member "
                "non-empty subscription); distinct = distinct inputs; evaluations = real assign() results judged "
                "(range, roundrobin, sticky fresh, sticky with previous-assignment user data: same / one member "
                "left / one member joined, sticky with per-member topic order reversed)")
    ctx.assumptions += [
        "member ids m1000<m2000<m3000<m4000 and topic names t0<t1<t2: assignors only compare/sort names, so other "
        "names with the same order behave identically; JoinGroup member order = sorted order; leader = first member",
        "PYTHONHASHSEED=0: iteration order of the library's internal sets is the one of this hash seed",
        "previous assignments are exactly what the sticky assignor itself produced one round earlier (no conflicting "
        "or stale user data); generation in user data is -1 because the real coordinator never calls "
        "on_generation_assignment",
        "random exploration beyond the bound (12 members / 8 topics / 12 partitions) is outside this technique",
    ]
    full = {"members": "1..4", "topics": "1..3", "partitions_per_topic": "absent,0..4", "subscriptions": "every non-empty subset per member"}
    if ctx.quick:
        ctx.bounds = {"range,roundrobin": full,
                      "sticky fresh + same-user-data": "all inputs with <=3 members or <=2 topics; 4 members x 3 topics "
                                                       f"only layouts with <= {QUICK_STICKY_43_MAX_PARTS} partitions in total",
                      "sticky member-left / member-joined / reversed topic order": "<=3 members x <=2 topics"}
    else:
        ctx.bounds = {"range,roundrobin,sticky (all phases)": full}
    E.quiet_logs()
    shards = _plan(ctx)
    if getattr(ctx, "only", None):  # debugging aid: ./check Cxx --only <shard kind>
        shards = [s for s in shards if ctx.only in s[3]]
        ctx.cap(f"--only {ctx.only}: other shard kinds not run")
    ctx.log(f"{len(shards)} shards")
    mv = E.MinViolations()
    for r in ctx.pmap(_shard, shards, merge=False, chunksize=1):
        mv.merge(r.mv)
        ctx.merge(r)
    mv.emit(ctx)
    # concrete samples
    for assignor, phase, states, masks in (("range", ("fresh",), (3, None, 2), (3, 7, 5)),
                                           ("roundrobin", ("fresh",), (3, 2), (3, 3)),
                                           ("sticky", ("fresh",), (1, 2, 3), (1, 3, 7)),
                                           ("sticky", ("drop", 0), (1, 2, 3), (1, 3, 7))):
        subs, res, problem, prev = _run_phase(assignor, phase, states, masks)
        ctx.sample({"assignor": assignor, "phase": list(phase), **_desc(states, subs), "result": res})


def replay(ctx, data):
    E.quiet_logs()
    assignor, phase, states, masks = data["assignor"], tuple(data["phase"]), tuple(data["states"]), tuple(data["masks"])
    subs, res, problem, prev = _run_phase(assignor, phase, states, masks)
    print(f"assignor={assignor} phase={' '.join(map(str, phase))}")
    print(f"input: {_desc(states, subs)}")
    if prev is not None:
        print(f"previous round result: {prev}")
    if problem:
        print(f"assign(): {problem}")
        return 0 if problem[0] == "skip" else 1
    print(f"result: {res}")
    bad = _judge(assignor, states, subs, res)
    for oracle, k, msg in bad:
        print(f"FAIL {oracle}/{k}: {msg}")
    if not bad:
        print("all oracles satisfied")
    return 1 if bad else 0
