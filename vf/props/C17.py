"""C17 - keyed records choose the same partition as the Java client.

Exhaustive bounded enumeration of keys x partition counts x availability
subsets against an independent int32 transcription of Java's Utils.murmur2.
"""
import itertools
import random
import types

from vf.runner import Acc

LEVEL = "exploration"

ALPHA = (0x00, 0x01, 0x7F, 0x80, 0xFF)


def _i32(x):
    x &= 0xFFFFFFFF
    return x - (1 << 32) if x & 0x80000000 else x


def java_murmur2(data):
    """org.apache.kafka.common.utils.Utils.murmur2 with Java int semantics."""
    length = len(data)
    seed = _i32(0x9747B28C)
    m = 0x5BD1E995
    r = 24
    h = _i32(seed ^ length)
    for i in range(length // 4):
        i4 = i * 4
        k = _i32((data[i4] & 0xFF) + ((data[i4 + 1] & 0xFF) << 8) + ((data[i4 + 2] & 0xFF) << 16)
                 + ((data[i4 + 3] & 0xFF) << 24))
        k = _i32(k * m)
        k = _i32(k ^ ((k & 0xFFFFFFFF) >> r))
        k = _i32(k * m)
        h = _i32(h * m)
        h = _i32(h ^ k)
    rem = length % 4
    base = length & ~3
    if rem == 3:
        h = _i32(h ^ ((data[base + 2] & 0xFF) << 16))
    if rem >= 2:
        h = _i32(h ^ ((data[base + 1] & 0xFF) << 8))
    if rem >= 1:
        h = _i32(h ^ (data[base] & 0xFF))
        h = _i32(h * m)
    h = _i32(h ^ ((h & 0xFFFFFFFF) >> 13))
    h = _i32(h * m)
    h = _i32(h ^ ((h & 0xFFFFFFFF) >> 15))
    return h


def java_partition(key, n):
    return (java_murmur2(key) & 0x7FFFFFFF) % n  # Utils.toPositive(murmur2(key)) % numPartitions


def _keys_for_shard(shard):
    kind = shard[0]
    if kind == "short":  # all byte strings of length 0..2 with given first byte (or empty)
        first = shard[1]
        if first is None:
            yield b""
            return
        yield bytes([first])
        for b in range(256):
            yield bytes([first, b])
    elif kind == "alpha":  # length L over ALPHA with a fixed prefix
        L, prefix = shard[1], shard[2]
        for t in itertools.product(ALPHA, repeat=L - len(prefix)):
            yield bytes(prefix + t)
    elif kind == "long":  # length L: deterministic filler + every ALPHA pattern on the last `tail` positions
        L, tail, prefix = shard[1], shard[2], shard[3]
        filler = bytes((i * 37 + 11) & 0xFF for i in range(L - tail))
        for t in itertools.product(ALPHA, repeat=tail - len(prefix)):
            yield filler + bytes(prefix + t)


def _counts_for(i):
    # every key meets a spread of partition counts; over a run all of 1..1000 are used many times
    return (1, 2, 3, 7, 16, 1000, (i % 1000) + 1, ((i * 7919) % 1000) + 1)


def _shard(shard):
    from aiokafka.partitioner import DefaultPartitioner, murmur2

    acc = Acc()
    part = DefaultPartitioner()
    lists = {}
    i = shard[-1] * 1000003
    for key in _keys_for_shard(shard[:-1]):
        i += 1
        ref = java_murmur2(key)
        got = murmur2(key)
        acc.count("evaluations")
        acc.distinct("distinct", hash(key))
        if (got & 0x7FFFFFFF) != (ref & 0x7FFFFFFF):
            acc.violation("murmur2", {"kind": "hash31", "len": len(key)},
                          {"kind": "key", "key": key.hex(), "n": 1},
                          f"murmur2({key.hex()})&0x7fffffff = {got & 0x7FFFFFFF}, Java gives {ref & 0x7FFFFFFF}")
            continue
        for n in _counts_for(i):
            allp = lists.get(n)
            if allp is None:
                allp = lists[n] = list(range(n))
            acc.count("partition_calls")
            # availability must not influence a keyed record: pass an empty and a one-element list alternately
            avail = [] if (i + n) & 1 else [allp[-1]]
            p = part(key, allp, avail)
            want = (ref & 0x7FFFFFFF) % n
            if p != want:
                acc.violation("keyed_partition", {"kind": "partition", "len": len(key)},
                              {"kind": "key", "key": key.hex(), "n": n, "avail": avail},
                              f"partition({key.hex()}, n={n}, available={avail}) = {p}, Java gives {want}")
                break
    if shard[0] == "short" and shard[1] is None:
        acc.sample({"key": "", "java_partition_of_1000": java_partition(b"", 1000)})
    return acc


def _availability(ctx):
    """Keyed: result independent of `available`. Unkeyed: member of `available` when non-empty,
    for every possible random.choice index (random.choice replaced by a chosen-index function)."""
    import aiokafka.partitioner as P
    from aiokafka.cluster import ClusterMetadata
    from aiokafka.producer.producer import AIOKafkaProducer
    from aiokafka.protocol.metadata import MetadataResponse_v0

    part = P.DefaultPartitioner()
    keys = [b"", b"a", b"\xff", b"\x80\x00\x01", b"key-\xff\x80\x7f", bytes(range(13))]
    real_choice = random.choice
    calls = []
    try:
        for n in range(1, 5):
            allp = list(range(n))
            for r in range(0, n + 1):
                for avail in itertools.permutations(allp, r):
                    avail = list(avail)
                    for key in keys:
                        ctx.count("evaluations")
                        ctx.count("availability_cases")
                        got = part(key, allp, avail)
                        want = java_partition(key, n)
                        if got != want:
                            ctx.violation("keyed_availability", {"kind": "availability"},
                                          {"kind": "key", "key": key.hex(), "n": n, "avail": avail},
                                          f"keyed partition depends on availability: {got} != {want}")
                    pool = avail or allp
                    for idx in range(len(pool)):
                        def chosen(seq, idx=idx):
                            calls.append(list(seq))
                            return seq[idx]

                        P.random = types.SimpleNamespace(choice=chosen)
                        ctx.count("evaluations")
                        ctx.count("unkeyed_cases")
                        got = part(None, allp, avail)
                        if avail and got not in avail:
                            ctx.violation("unkeyed_available", {"kind": "unkeyed"},
                                          {"kind": "unkeyed", "n": n, "avail": avail, "idx": idx},
                                          f"unkeyed record sent to {got}, available={avail}")
                        if got not in allp:
                            ctx.violation("unkeyed_available", {"kind": "unkeyed-range"},
                                          {"kind": "unkeyed", "n": n, "avail": avail, "idx": idx},
                                          f"unkeyed record sent to non-existent partition {got}")
                    P.random = random
    finally:
        P.random = random
        random.choice = real_choice
    # the producer's own path: real ClusterMetadata -> AIOKafkaProducer._partition
    for n in (1, 2, 3, 5, 12, 40):
        for down in itertools.chain([()], [(d,) for d in range(n)], [tuple(range(n))]):
            md = ClusterMetadata(metadata_max_age_ms=10000)
            parts = [(0 if p not in down else 5, p, (-1 if p in down else p % 2), [0], [0]) for p in range(n)]
            md.update_metadata(MetadataResponse_v0([(0, "h0", 9000), (1, "h1", 9001)], [(0, "t", parts)]))
            fake = types.SimpleNamespace(_metadata=md, _partitioner=part)
            for key in keys:
                ctx.count("evaluations")
                ctx.count("producer_path_cases")
                try:
                    got = AIOKafkaProducer._partition(fake, "t", None, None, None, key, None)
                except Exception as e:  # noqa: BLE001 - the code under test failing on a valid input is a verdict, not a harness error
                    got = f"raised {type(e).__name__}: {e}"
                want = sorted(md.partitions_for_topic("t"))[java_partition(key, n)]
                if got != want:
                    ctx.violation("producer_partition", {"kind": "producer-path"},
                                  {"kind": "producer", "key": key.hex(), "n": n, "down": list(down)},
                                  f"producer._partition({key.hex()}, n={n}, down={down}) = {got}, expected {want}")
            avail = set(md.available_partitions_for_topic("t"))
            for seed in range(8):
                random.seed(seed)
                ctx.count("evaluations")
                try:
                    got = AIOKafkaProducer._partition(fake, "t", None, None, None, None, None)
                except Exception as e:  # noqa: BLE001
                    got = f"raised {type(e).__name__}: {e}"
                if avail and got not in avail:
                    ctx.violation("unkeyed_available", {"kind": "producer-unkeyed"},
                                  {"kind": "producer-unkeyed", "n": n, "down": list(down), "seed": seed},
                                  f"producer sent unkeyed record to unavailable partition {got} (available {sorted(avail)})")


def shards(ctx):
    out = [("short", None)] + [("short", b) for b in range(256)]
    hi = 8 if ctx.quick else 10
    for L in range(3, hi + 1):
        if L <= 5:
            out.append(("alpha", L, ()))
        else:
            for pre in itertools.product(ALPHA, repeat=2 if L <= 8 else 3):
                out.append(("alpha", L, pre))
    if not ctx.quick:
        for L in range(11, 65):
            for pre in itertools.product(ALPHA, repeat=2):
                out.append(("long", L, 8, pre))
    else:
        for L in (11, 12, 13, 14, 31, 64):
            out.append(("long", L, 5, ()))
    return [s + (i,) for i, s in enumerate(out)]


def run(ctx):
    ctx.rule = ("all byte strings of length 0..2; all strings over {00,01,7f,80,ff} of length 3..%d; "
                "longer keys with every such pattern on the trailing positions; each key hashed once and "
                "partitioned for 8 partition counts drawn so that 1..1000 are all covered; every availability "
                "subset (ordered) of <=4 partitions for keyed and unkeyed records with every random.choice index; "
                "distinct = distinct keys" % (8 if ctx.quick else 10))
    ctx.assumptions += ["reference = own transcription of Java Utils.murmur2/toPositive with int32 arithmetic",
                        "random keys up to 4 KiB are not covered (sampling is outside this technique)"]
    ctx.bounds = {"key_len_exhaustive": 2, "alphabet_len": 8 if ctx.quick else 10, "partition_counts": "1..1000"}
    sh = shards(ctx)
    ctx.pmap(_shard, sh, chunksize=4)
    _availability(ctx)
    ctx.sample({"key": "6b6579", "java_murmur2": java_murmur2(b"key"), "partition_of_7": java_partition(b"key", 7)})


def replay(ctx, data):
    from aiokafka.partitioner import DefaultPartitioner, murmur2

    if data.get("kind") == "key":
        key = bytes.fromhex(data["key"])
        n = data["n"]
        got = DefaultPartitioner()(key, list(range(n)), data.get("avail", []))
        want = java_partition(key, n)
        print(f"key={key!r} n={n} library murmur2={murmur2(key)} java={java_murmur2(key)} partition={got} expected={want}")
        return 1 if got != want else 0
    print("replay data:", data)
    return 1
