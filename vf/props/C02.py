"""C02 - every send future resolves once, with the record's true coordinates.

Same engine as C01 (real producer vs simulated cluster, vf.scen_producer) with the future/metadata oracles
switched on: exactly-once resolution, (partition, offset, timestamp, timestamp type) of *that* record in the
broker log, acks=0 -> None, flush()/stop() return only after previously accepted futures are done, idempotent +
retriable faults => no accepted record fails, resolution within H after the last fault.
"""
from vf import explore, scen_producer

LEVEL = "model_checking"

RETRIABLE = [6, 5, 3, 7, 19, 20]

# batch shapes: (partition, timestamp) per send; None = default timestamp
T = 1_600_000_000_500
SHAPES = {
    "equal": [[(0, T), (0, T), (0, T)]],
    "incr": [[(0, T), (0, T + 1), (0, T + 5)]],
    "decr": [[(0, T + 5), (0, T + 1), (0, T)]],
    "default": [[(0, None), (0, None), (0, T + 7)]],
    "two-part": [[(0, T), (1, T + 1), (0, T + 2), (1, T + 3)]],
}
PROG_A = [[(0, T), (0, T + 1)], [(0, T + 2), (1, T + 3)]]

GRID_B = [{"r": 1}]
QUICK_B = [{"r": 1, "f": 1}, {"k": 1, "f": 1}, {"k": 1, "r": 1}, {"p": 1}]
THOROUGH_B = QUICK_B + [{"p": 1, "f": 1}, {"r": 2}, {"f": 2}]


def scenarios(ctx):
    quick = ctx.quick
    out = []
    base_f = {"faults": ["drop-before", "drop-after", "lose", "err"], "errs": {"Produce": RETRIABLE, "Metadata": []},
              "fault_apis": ["Produce", "Metadata"], "check_c01": False}
    # configuration grid: acks x produce version cap x timestamp type x batch shape (multi-record batches), r<=1
    for acks_name, m in (("acks0", {"acks": 0}), ("acks1", {"acks": 1}), ("acksall", {"acks": -1}), ("idem", {"idempotent": True})):
        for pmax in range(0, 8):
            if acks_name == "idem" and pmax < 3:
                continue  # idempotence needs message format v2 (Produce v3+)
            for ts_type in (0, 1):
                if ts_type == 1 and pmax < 2:
                    continue  # Produce v0/v1 responses carry no timestamp; such brokers have no LogAppendTime
                for sname, prog in SHAPES.items():
                    p = dict(base_f, **m, batching="multi", baseline="app", program=prog, produce_max=pmax, ts_type=ts_type)
                    out.append((f"grid-{acks_name}-v{pmax}-ts{ts_type}-{sname}", p, GRID_B if quick else [{"r": 1, "f": 1}, {"r": 2}]))
    # schedules/faults with flush() and stop() placeable (budget k) at every choice point, quiescent or mid-cascade
    for mname, m in (("idem", {"idempotent": True}), ("acks1", {"acks": 1}), ("acks0", {"acks": 0})):
        for bname, b in (("single", {"batching": "single"}), ("multi", {"batching": "multi"})):
            for base in ("net", "app"):
                if quick and (mname == "acks0" and base == "net"):
                    continue
                p = dict(base_f, **m, **b, baseline=base, program=PROG_A, leader_move=True, flush_gate=True, stop_gate=True)
                out.append((f"{mname}-{bname}-{base}-gated", p, QUICK_B if quick else THOROUGH_B))
    # send_batch() with a pre-built BatchBuilder
    for mname, m in (("idem", {"idempotent": True}), ("acks1", {"acks": 1})):
        for ts_type in (0, 1):
            p = dict(base_f, **m, batching="multi", baseline="app", program=[[(0, T), (0, T + 3), (0, T + 1)]], ts_type=ts_type, send_batch=True)
            out.append((f"sendbatch-{mname}-ts{ts_type}", p, [{"r": 1, "f": 1}] if quick else QUICK_B))
    # send_batch() with a still open builder followed by send() to the same partition before the batch is drained
    # (the send()'s record joins the batch: its relative offset is not its index among the per-record futures)
    for mname, m in (("idem", {"idempotent": True}), ("acks1", {"acks": 1})):
        p = dict(base_f, **m, batching="multi", baseline="app", program=[[(0, T), (0, T + 3)], [(0, T + 1), (0, T + 2)]], send_batch=[0])
        out.append((f"mixed-batch-send-{mname}", p, [{"r": 1, "f": 1}, {"p": 1}] if quick else QUICK_B))
    # send() parked on a full batch (long linger, small batch) while flush()/stop() are placed around it
    for mname, m in (("idem", {"idempotent": True}), ("acks1", {"acks": 1})):
        for base in (("app",) if quick else ("app", "net")):
            p = dict(base_f, **m, batching="multi", baseline=base, max_batch_size=220, linger_ms=300, value_pad=60,
                     program=[[(0, T), (0, T + 1), (0, T + 2)], [(0, T + 3), (1, T + 4)]], flush_gate=True, stop_gate=True)
            out.append((f"parked-send-{mname}-{base}", p, [{"k": 1, "r": 1}] if quick else THOROUGH_B))
    # a partition that loses its leader for good once records are pending (non-idempotent producers give up after the request
    # timeout): every accepted future must still resolve, flush()/stop() must still return
    for base in (("app",) if quick else ("app", "net")):
        p = dict(base_f, acks=1, batching="single", baseline=base, program=[[(0, T), (0, T + 1), (0, T + 2)], [(1, T + 3)]],
                 mode_after=[1, ["leaderless", 0]], flush_gate=True, stop_gate=True, k_mid=False)
        out.append((f"leaderless-acks1-{base}", p, [{"k": 1}] if quick else [{"k": 1}, {"r": 1}, {"f": 1}]))
    return out


def run(ctx):
    ctx.rule = ("configuration grid (acks x Produce v0..v7 x CreateTime/LogAppendTime x batch shapes) on every schedule with <=1 "
                "reordering, plus every schedule/fault/flush/stop placement whose deviation counts fit one of the budget vectors, "
                "each executed on the real producer from a fresh loop")
    ctx.assumptions += [
        "simulated cluster follows Kafka's produce rules (DESIGN E4); LogAppendTime only on brokers with Produce >= v2",
        "faults limited to the retriable alphabet; horizon H=12 virtual seconds after the last send",
    ]
    only = getattr(ctx, "only", None)
    scs = [s for s in scenarios(ctx) if not only or only in s[0]]
    ctx.bounds = {"budget_vectors": {"grid": GRID_B if ctx.quick else [{"r": 1, "f": 1}, {"r": 2}], "gated": QUICK_B if ctx.quick else THOROUGH_B},
                  "scenarios": len(scs)}
    counts = explore.explore_many(ctx, [(name, scen_producer.make, params, bounds) for name, params, bounds in scs])
    ctx.note("executions_per_scenario", counts if len(counts) < 60 else {"total": sum(counts.values()), "scenarios": len(counts)})
    ctx.sample({"scenario": scs[0][0], "params": scs[0][1]})
    if len(ctx.sets.get("outcomes", ())) < 2:
        ctx.violation("vacuity", {"what": "single-outcome"}, {}, "exploration produced a single outcome: nothing collided")


def replay(ctx, data):
    res, same = explore.replay_execution(scen_producer.make, data)
    if not same:
        print("REPLAY NOT DETERMINISTIC")
        return 2
    return 1 if res.violations else 0
