"""C15 - the sticky assignor keeps assignments that need not move.

For every first-round input of C14's bounded space (vf.assign_enum): round 1 with fresh members, each
member receives its assignment through the real on_assignment() (own subclass per member = own
process) and rejoins with the real metadata() user data.  Second rounds:
  same           identical membership/subscriptions/partitions  -> result identical to round 1
and, when all members subscribe to the same topics,
  minus D        every non-empty proper subset D of members has left -> no partition moves between
                 two surviving members
  plus N         1 or 2 new members with the same subscription, at every sort position relative to the
                 old ids -> no partition moves between two old members
Every later round is also checked for validity (C14 oracle 1).  Thorough chains a third round of the
same kinds after every second round on the <=3-member slice.
"""
import itertools

from vf import assign_enum as E
from vf.runner import Acc

LEVEL = "exploration"

QUICK_SAME_43_MAX_PARTS = 5  # quick: 'same' on 4 members x 3 topics (non-identical subscriptions) only up to this many partitions


def _desc(states, subs):
    return {"metadata": {E.TOPICS[i]: ("none" if s is None else s) for i, s in enumerate(states)},
            "subscriptions": {k: list(v) for k, v in subs.items()}}


def _identical(subs):
    return len({frozenset(v) for v in subs.values()}) == 1


def _extra_topic(spec, subs):
    """Discriminating fact for signatures: the cluster metadata holds a topic with >=1 partition that no
    member of this round subscribes to (e.g. pattern subscription / all-topic metadata)."""
    used = set()
    for v in subs.values():
        used.update(v)
    return any(ps and t not in used for t, ps in spec.items())


def _steps_from(subs):
    """All next-round steps the property speaks about, simplest first."""
    yield ("same",)
    if not _identical(subs):
        return
    ids = list(subs)
    for r in range(1, len(ids)):
        for gone in itertools.combinations(ids, r):
            yield ("minus", gone)
    for k in (1, 2):
        for names in E.new_member_placements(ids, k):
            yield ("plus", names)


def _apply(subs, step):
    """Subscriptions of the next round (JoinGroup order = sorted member ids)."""
    if step[0] == "same":
        return dict(subs)
    if step[0] == "minus":
        return {k: v for k, v in subs.items() if k not in step[1]}
    topics = next(iter(subs.values()))
    new = dict(subs)
    for n in step[1]:
        new[n] = topics
    return {k: new[k] for k in sorted(new)}


def _round(cluster, subs, hist, gen_mode):
    """-> (result, wire, problem)"""
    try:
        res, wire = E.sticky_round(cluster, subs, hist, gen_mode)
        return res, wire, None
    except E.AssignTimeout:
        return None, None, ("no_return", f"assign() did not return within {E.ASSIGN_TIMEOUT_S}s")
    except Exception as e:  # noqa: BLE001
        return None, None, ("exception:" + type(e).__name__, f"assign() raised {type(e).__name__}: {e}")


def _gave_to_new(prev_res, res, new):
    """Old members that owned, in the previous round, a partition a member of `new` owns now."""
    prev_owner = {tp: m for m, tps in E.flat(prev_res).items() for tp in tps}
    return {prev_owner[tp] for m in new for tp in E.flat(res).get(m, ()) if tp in prev_owner}


def _judge_step(spec, step, prev_subs, prev_res, subs, res):
    """Oracles for one later round. -> list of (oracle, kind, message, extra signature facts)"""
    bad = [("valid", k, msg, {}) for k, msg in E.check_valid(spec, subs, res)]
    if step[0] == "same":
        a, b = E.flat(prev_res), E.flat(res)
        if a != b:
            diff = {m: (a.get(m), b.get(m)) for m in sorted(set(a) | set(b)) if a.get(m) != b.get(m)}
            bad.append(("unchanged_input_same_result", "assignment_changed",
                        f"nothing changed, yet the assignment did: (before, after) per member {diff}", {}))
    elif step[0] == "minus":
        mv = E.moved_between(prev_res, res, set(subs))
        if mv:
            bad.append(("departed_members", "moved_between_survivors",
                        f"members {list(step[1])} left; partitions moved between survivors: "
                        + ", ".join(f"{t}[{p}] {a}->{b}" for (t, p), a, b in mv), {}))
    else:
        mv = E.moved_between(prev_res, res, set(prev_subs))
        if mv:
            gave = _gave_to_new(prev_res, res, set(subs) - set(prev_subs))
            # discriminating fact: every old member that received a moved partition handed one of its own
            # partitions to a new member in this very round (the move refills it), vs. a gratuitous exchange
            facts = {"every_receiver_gave_to_new_member": all(b in gave for _, _, b in mv)}
            bad.append(("new_members", "moved_between_old_members",
                        f"members {list(step[1])} joined; partitions moved between old members: "
                        + ", ".join(f"{t}[{p}] {a}->{b}" for (t, p), a, b in mv), facts))
    return bad


def _explore(acc, mv, states, masks, gen_mode, depth):
    """Round 1 on the input, then every chain of `depth`-1 later rounds."""
    cluster = E.cluster_for(tuple(states))
    spec = E.partitions_spec(states)
    ids = E.member_ids(len(masks))
    subs1 = {ids[i]: E.topics_of(x) for i, x in enumerate(masks)}
    base_size = E.input_size(states, masks)
    r1, w1, problem = _round(cluster, subs1, {}, gen_mode)
    acc.count("first_rounds")
    if problem and problem[0] == "no_return":
        acc.count("assign_hangs")
    if problem or E.check_valid(spec, subs1, r1):
        acc.count("skipped_first_round_not_valid")  # C14's business
        return

    def rec(subs, res, hist, steps, gen):
        for step in _steps_from(subs):
            nsubs = _apply(subs, step)
            nres, nwire, problem = _round(cluster, nsubs, {k: hist[k] for k in nsubs if k in hist}, gen_mode)
            acc.count("evaluations")
            acc.count(f"round{gen + 1}_{step[0]}")
            chain = steps + [step]
            replay = {"states": list(states), "masks": list(masks), "gen_mode": gen_mode,
                      "steps": [[s[0]] + ([list(s[1])] if len(s) > 1 else []) for s in chain]}
            size = base_size + (len(chain), len(nsubs), str(chain))
            if problem:
                if problem[0] == "no_return":
                    acc.count("assign_hangs")
                mv.add(size, "assign_returns", {"step": step[0], "kind": problem[0]}, replay,
                       f"round {gen + 1} ({step[0]}): {problem[1]}; first-round input {_desc(states, subs1)}")
                continue
            bad = _judge_step(spec, step, subs, res, nsubs, nres)
            # signature facts are independent of names and sizes: which membership changes preceded this round
            # ("none" = the previous assignment is the fresh first-round one, i.e. the plain two-round case)
            before = "+".join(sorted({s[0] for s in steps if s[0] != "same"})) or "none"
            for oracle, k, msg, facts in bad:
                sig = {"step": step[0], "kind": k, "unsubscribed_topic_with_partitions": _extra_topic(spec, nsubs),
                       "membership_changes_before": before}
                sig.update(facts)
                mv.add(size, oracle, sig, replay,
                       f"round {gen + 1}: {msg}; first-round input {_desc(states, subs1)}; steps {chain}; "
                       f"round {gen} result {res}; round {gen + 1} result {nres}")
            if gen + 1 < depth and not any(b[0] == "valid" for b in bad):
                nh = {k: hist.get(k, []) + [(gen + 1, nwire[k])] for k in nsubs}
                rec(nsubs, nres, nh, chain, gen + 1)

    rec(subs1, r1, {k: [(1, w1[k])] for k in subs1}, [], 1)


def _shard(sh):
    T, m, li, what, gen_mode, depth = sh
    E.quiet_logs()
    acc = Acc()
    mv = E.MinViolations()
    states = E.layouts(T)[li]
    if what == "ident":
        vectors = [(x,) * m for x in range(1, 1 << T)]
    else:  # every other subscription vector (for m == 1 all vectors are 'identical')
        vectors = [v for v in E.sub_vectors(T, m) if len(set(v)) > 1]
    for masks in vectors:
        if acc.counts.get("assign_hangs", 0) > E.MAX_HANGS_PER_SHARD:
            acc.cap(f"a shard was abandoned after {E.MAX_HANGS_PER_SHARD + 1} assign() calls that did not return")
            break
        acc.distinct("distinct", E.case_code(T, states, masks))
        acc.count(f"inputs_{what}_{gen_mode}_depth{depth}")
        _explore(acc, mv, states, masks, gen_mode, depth)
    acc.mv = mv
    return acc


def _plan(ctx):
    shards = []
    full = E.shard_list(4, 3)
    nparts = lambda s: sum(x or 0 for x in E.layouts(s[0])[s[2]])  # noqa: E731
    for s in full:
        T, m, li = s
        deep = m <= 3 if not ctx.quick else m == 1
        shards.append(s + ("ident", "coordinator", 3 if deep else 2))
        if m >= 2 and not (ctx.quick and T == 3 and m == 4 and nparts(s) > QUICK_SAME_43_MAX_PARTS):
            shards.append(s + ("other", "coordinator", 3 if deep else 2))
        if not ctx.quick and m <= 3:
            shards.append(s + ("ident", "set", 2))
            if m >= 2:
                shards.append(s + ("other", "set", 2))
    # heavy shards first so the pool drains evenly
    shards.sort(key=lambda s: -(E.n_cases(s[0], s[1]) if s[3] == "other" else 50 * s[5] ** 4 * s[1]))
    return shards


def run(ctx):
    E.quiet_logs()
    ctx.rule = ("one input = C14 input (layout x subscriptions) as the first round; evaluations = later rounds "
                "(second, third) executed by the real assign() with previous assignments carried through the real "
                "on_assignment()/metadata() user-data encoding and judged; distinct = distinct first-round inputs")
    ctx.assumptions += [
        "each member is simulated by a fresh subclass of StickyPartitionAssignor (class-level state = one process)",
        "gen_mode 'coordinator': as aiokafka's GroupCoordinator._on_join_complete does, only on_assignment() is "
        "called, never on_generation_assignment(), so user data always carries generation -1; gen_mode 'set' "
        "(thorough, <=3 members) also calls on_generation_assignment(round number) first",
        "member ids m1000<m2000<..., new members get ids at every sort position relative to the existing ones; "
        "JoinGroup order = sorted ids; topics listed in sorted order; PYTHONHASHSEED=0",
        "previous assignments are the ones the assignor produced itself (no stale or conflicting user data); cluster "
        "layout does not change between rounds; chains of 5 random rounds are outside this technique",
    ]
    full = {"members": "1..4", "topics": "1..3", "partitions_per_topic": "absent,0..4", "subscriptions": "every non-empty subset per member"}
    if ctx.quick:
        ctx.bounds = {"second round same/minus/plus, identical subscriptions": full,
                      "second round same, differing subscriptions": "all inputs with <=3 members or <=2 topics; 4 members x 3 "
                                                                    f"topics only layouts with <= {QUICK_SAME_43_MAX_PARTS} partitions in total",
                      "third round after every second round": "1 first-round member (up to 3 members in round 2, 5 in round 3)",
                      "rounds": "2 (3 on the 1-member slice)"}
    else:
        ctx.bounds = {"second round (same; minus/plus when subscriptions identical)": full,
                      "third round after every second round": "<=3 first-round members",
                      "generation set via on_generation_assignment": "<=3 members, 2 rounds", "rounds": 3}
    shards = _plan(ctx)
    if getattr(ctx, "only", None):  # debugging aid: ./check Cxx --only <shard kind>
        shards = [s for s in shards if ctx.only in s[3]]
        ctx.cap(f"--only {ctx.only}: other shard kinds not run")
    ctx.log(f"{len(shards)} shards")
    mv = E.MinViolations()
    for r in ctx.pmap(_shard, shards, merge=False, chunksize=1):
        mv.merge(r.mv)
        ctx.merge(r)
    mv.emit(ctx)
    for states, masks, steps in (((2, 3), (3, 3, 3), [("minus", ("m2000",))]),
                                 ((4, 1), (3, 3), [("plus", ("m1500",))]),
                                 ((1, 2, 3), (1, 3, 7), [("same",)])):
        rounds = _chain(states, masks, steps, "coordinator")
        ctx.sample({"first_round_input": _desc(states, rounds[0][0]), "steps": [list(map(str, s)) for s in steps],
                    "results_per_round": [r[1] for r in rounds]})


def _chain(states, masks, steps, gen_mode):
    """Re-run exactly one history. -> [(subs, result, problem)] per round"""
    cluster = E.cluster_for(tuple(states))
    ids = E.member_ids(len(masks))
    subs = {ids[i]: E.topics_of(x) for i, x in enumerate(masks)}
    res, wire, problem = _round(cluster, subs, {}, gen_mode)
    out = [(subs, res, problem)]
    hist = {k: [(1, wire[k])] for k in subs} if not problem else {}
    gen = 1
    for step in steps:
        if problem:
            break
        subs = _apply(subs, step)
        res, wire, problem = _round(cluster, subs, {k: hist[k] for k in subs if k in hist}, gen_mode)
        gen += 1
        out.append((subs, res, problem))
        if not problem:
            hist = {k: hist.get(k, []) + [(gen, wire[k])] for k in subs}
    return out


def replay(ctx, data):
    E.quiet_logs()
    states, masks, gen_mode = tuple(data["states"]), tuple(data["masks"]), data.get("gen_mode", "coordinator")
    steps = [tuple([s[0]] + ([tuple(s[1])] if len(s) > 1 else [])) for s in data["steps"]]
    rounds = _chain(states, masks, steps, gen_mode)
    spec = E.partitions_spec(states)
    print(f"first-round input: {_desc(states, rounds[0][0])}  gen_mode={gen_mode}")
    for i, (subs, res, problem) in enumerate(rounds):
        label = "fresh" if i == 0 else " ".join(map(str, steps[i - 1]))
        print(f"round {i + 1} [{label}] members={list(subs)} -> {problem if problem else res}")
    if rounds[-1][2]:
        return 1
    if len(rounds) != len(steps) + 1:
        return 1
    bad = _judge_step(spec, steps[-1], rounds[-2][0], rounds[-2][1], rounds[-1][0], rounds[-1][1])
    for oracle, k, msg, _facts in bad:
        print(f"FAIL {oracle}/{k}: {msg}")
    if not bad:
        print("all oracles satisfied")
    return 1 if bad else 0
