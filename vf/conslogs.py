"""Partition-log builders and *reference readers* for the consumer properties (C03, C08, C13).

Everything here is independent of aiokafka: logs are built with vf.krecords, and the reference
readers work on the log *specification* (the list of entries the log was built from), never on
anything the library decoded.

C03 shapes (one stored batch each, `base` = first offset covered):
    v0       one magic-0 message                                   1 offset, 1 visible
    v1       one magic-1 message                                   1 offset, 1 visible
    v1gz2    magic-1 gzip wrapper of 2 (wrapper offset = base+1)   2 offsets, 2 visible
    v2x1     v2 batch, 1 record                                    1 offset
    v2x2     v2 batch, 2 records                                   2 offsets
    v2gap    v2 batch, records at deltas 0 and 2, lastOffsetDelta 3   4 offsets, visible base, base+2
    v2empty  v2 batch emptied by compaction, lastOffsetDelta 1     2 offsets, nothing visible
    ctl      v2 control batch (commit marker)                      1 offset, nothing visible
    hole     no batch at all (a whole batch removed by compaction) 1 offset, nothing stored

Transactional log entries (C08, C13): tuples
    ("d", pid, n)     transactional data batch of producer pid with n records
    ("p", n)          plain (non-transactional, no producer id) batch with n records
    ("i", pid, n)     idempotent, non-transactional batch (producer id set, not transactional)
    ("c", pid)        COMMIT marker of pid
    ("a", pid)        ABORT marker of pid
"""
from vf import krecords

SHAPES = ("v0", "v1", "v1gz2", "v2x1", "v2x2", "v2gap", "v2empty", "ctl")
SHAPE_SPAN = {"v0": 1, "v1": 1, "v1gz2": 2, "v2x1": 1, "v2x2": 2, "v2gap": 4, "v2empty": 2, "ctl": 1, "hole": 1}
SHAPE_VISIBLE = {"v0": (0,), "v1": (0,), "v1gz2": (0, 1), "v2x1": (0,), "v2x2": (0, 1), "v2gap": (0, 2), "v2empty": (),
                 "ctl": (), "hole": ()}


def value_of(part, offset):
    return b"%d@%d" % (part, offset)


def key_of(offset):
    return b"k%d" % offset if offset % 2 else None


def build_shape(shape, base, part):
    """-> raw bytes of the stored batch (b"" for a hole)."""
    def rec(o):
        return (1000 + o, key_of(o), value_of(part, o))

    if shape == "hole":
        return b""
    if shape == "v0":
        return krecords.encode_legacy(0, [(None, key_of(base), value_of(part, base))], base_offset=base)
    if shape == "v1":
        return krecords.encode_legacy(1, [rec(base)], base_offset=base)
    if shape == "v1gz2":
        return krecords.encode_legacy(1, [rec(base), rec(base + 1)], compression=krecords.GZIP, base_offset=base)
    if shape == "v2x1":
        return krecords.encode_v2([rec(base) + ([],)], base_offset=base)
    if shape == "v2x2":
        return krecords.encode_v2([rec(base) + ([],), rec(base + 1) + ([("h", b"1")],)], base_offset=base)
    if shape == "v2gap":
        return krecords.encode_v2([(0,) + rec(base) + ([],), (2,) + rec(base + 2) + ([],)], base_offset=base,
                                  last_offset_delta=3, first_timestamp=1000 + base, max_timestamp=1000 + base + 3)
    if shape == "v2empty":
        return krecords.encode_v2([], base_offset=base, last_offset_delta=1, first_timestamp=1000 + base,
                                  max_timestamp=1000 + base + 1)
    if shape == "ctl":
        return krecords.control_batch(base, 7, 0, True, 1000 + base)
    raise ValueError(shape)


def build_log(shapes, part, base=0):
    """-> (raw bytes of all stored batches, end offset, [visible offsets], [(base, last) per stored batch])."""
    raw = bytearray()
    visible = []
    spans = []
    off = base
    for s in shapes:
        raw += build_shape(s, off, part)
        visible.extend(off + d for d in SHAPE_VISIBLE[s])
        if s != "hole":
            spans.append((off, off + SHAPE_SPAN[s] - 1))
        off += SHAPE_SPAN[s]
    return bytes(raw), off, visible, spans


def log_end(shapes, base=0):
    end = base
    off = base
    for s in shapes:
        off += SHAPE_SPAN[s]
        if s != "hole":
            end = off
    return end


def all_logs(max_batches, shapes=SHAPES, min_batches=1):
    """Every sequence of 1..max_batches shapes, simplest first.  A trailing hole is meaningless and skipped."""
    out = []
    level = [()]
    for n in range(1, max_batches + 1):
        level = [l + (s,) for l in level for s in shapes]
        if n >= min_batches:
            out.extend(l for l in level if l[-1] != "hole")
    return out


# ------------------------------------------------------------------------------------------------------
# transactional logs
def txn_entry_span(e):
    return e[-1] if e[0] in ("d", "p", "i") else 1


def enumerate_txn_logs(max_entries, pids=(1, 2, 3), sizes=(1,), canonical=True, min_entries=1, solitary_abort=True,
                       idempotent=False):
    """Every well-formed transactional log of min..max entries (Kafka's rules: a marker closes the open transaction
    of its producer; plus the legal solitary ABORT of a producer with no open transaction).  canonical: producer
    ids appear in order of first use (the ids are interchangeable)."""
    out = []

    def rec(log, open_, used):
        if min_entries <= len(log):
            out.append(tuple(log))
        if len(log) == max_entries:
            return
        cands = list(pids[:used + 1]) if canonical else list(pids)
        for n in sizes:
            rec_ = log + [("p", n)]
            rec(rec_, open_, used)
        if idempotent:
            for pid in cands:
                if pid not in open_:
                    rec(log + [("i", pid, 1)], open_, max(used, pids.index(pid) + 1))
        for pid in cands:
            u = max(used, pids.index(pid) + 1)
            for n in sizes:
                rec(log + [("d", pid, n)], open_ | {pid}, u)
            if pid in open_:
                rec(log + [("c", pid)], open_ - {pid}, u)
                rec(log + [("a", pid)], open_ - {pid}, u)
            elif solitary_abort:
                rec(log + [("a", pid)], open_, u)

    rec([], frozenset(), 0)
    out.sort(key=len)
    return out


class TxnLog:
    """Ground truth of a transactional partition log, computed from the entry list alone."""

    def __init__(self, entries, part=0, removed=(), emptied=()):
        self.entries = [tuple(e) for e in entries]
        self.part = part
        self.removed = set(removed)  # indexes of data entries removed by compaction (whole batches)
        self.emptied = set(emptied)  # indexes of data entries whose records were all removed, header kept (empty batch)
        self.batches = []  # (index, base, last, entry)
        off = 0
        open_ = {}  # pid -> (first offset, [entry indexes])
        self.status = {}  # entry index -> "committed" | "aborted" | "open" | "plain"
        self.aborted_index = []  # (pid, first offset, marker offset): what a broker records
        for i, e in enumerate(self.entries):
            span = txn_entry_span(e)
            self.batches.append((i, off, off + span - 1, e))
            if e[0] in ("p", "i"):
                self.status[i] = "plain"
            elif e[0] == "d":
                open_.setdefault(e[1], (off, []))[1].append(i)
                self.status[i] = "open"
            else:
                first = open_.pop(e[1], None)
                self.status[i] = "marker"
                if first is not None:
                    for k in first[1]:
                        self.status[k] = "committed" if e[0] == "c" else "aborted"
                    if e[0] == "a":
                        self.aborted_index.append((e[1], first[0], off))
            off += span
        self.end = off
        self.lso = min((v[0] for v in open_.values()), default=off)

    def data_offsets(self, i):
        _, base, last, e = self.batches[i]
        return list(range(base, last + 1))

    def expected(self, committed_only, start=0):
        """Offsets a consumer positioned at `start` must deliver, in order."""
        out = []
        limit = self.lso if committed_only else self.end
        for i, base, last, e in self.batches:
            if e[0] not in ("d", "p", "i") or i in self.removed or i in self.emptied:
                continue
            if committed_only and self.status[i] not in ("plain", "committed"):
                continue
            out.extend(o for o in range(base, last + 1) if start <= o < limit)
        return out

    def served_end(self, committed_only):
        return self.lso if committed_only else self.end

    def served(self, committed_only):
        """(base, last, index) of the stored batches a broker serves at this isolation level."""
        limit = self.lso if committed_only else self.end
        return [(base, last, i) for i, base, last, e in self.batches if i not in self.removed and base < limit]

    def has_served_from(self, pos, committed_only):
        return any(last >= pos for base, last, i in self.served(committed_only))

    def compactable(self):
        """Indexes of data batches a log cleaner may touch: strictly below the last stable offset."""
        return [i for i, base, last, e in self.batches if e[0] in ("d", "p", "i") and last < self.lso]

    def kind_at(self, pos):
        for i, base, last, e in self.batches:
            if base <= pos <= last:
                if i in self.removed:
                    return "removed-batch"
                if e[0] in ("c", "a"):
                    return "control-batch"
                if i in self.emptied:
                    return "emptied-batch"
                return {"plain": "plain-batch", "committed": "committed-batch", "aborted": "aborted-batch", "open": "open-batch"}[self.status[i]]
        return "log-end"

    def raw_batches(self):
        """[(index, raw)] of the stored batches (removed ones omitted), built with vf.krecords."""
        out = []
        seqs = {}
        for i, base, last, e in self.batches:
            if i in self.removed:
                continue
            if i in self.emptied:
                pid = e[1] if e[0] in ("d", "i") else -1
                raw = krecords.encode_v2([], base_offset=base, last_offset_delta=last - base, transactional=e[0] == "d",
                                         producer_id=pid, producer_epoch=0 if pid >= 0 else -1,
                                         base_sequence=seqs.get(pid, 0) if pid >= 0 else -1,
                                         first_timestamp=1000 + base, max_timestamp=1000 + last)
                if pid >= 0:
                    seqs[pid] = seqs.get(pid, 0) + e[2]
            elif e[0] in ("d", "i"):
                pid = e[1]
                n = e[2]
                seq = seqs.get(pid, 0)
                seqs[pid] = seq + n
                raw = krecords.encode_v2([(1000 + o, key_of(o), value_of(self.part, o), []) for o in range(base, last + 1)],
                                         base_offset=base, transactional=e[0] == "d", producer_id=pid, producer_epoch=0,
                                         base_sequence=seq)
            elif e[0] == "p":
                raw = krecords.encode_v2([(1000 + o, key_of(o), value_of(self.part, o), []) for o in range(base, last + 1)],
                                         base_offset=base)
            else:
                raw = krecords.control_batch(base, e[1], 0, e[0] == "c", 1000 + base)
            out.append((i, raw))
        return out

    def install(self, cluster, topic, index):
        """Load into a simulated partition the way a broker would have built it (log, open transactions, aborted index)."""
        p = cluster.partition(topic, index)
        for i, raw in self.raw_batches():
            b = krecords.decode_batch(raw)
            p.append_raw(raw, b)
        p.end = self.end
        open_ = {}
        for i, base, last, e in self.batches:
            if e[0] == "d":
                open_.setdefault(e[1], base)
            elif e[0] in ("c", "a"):
                open_.pop(e[1], None)
        p.open_txns = dict(open_)
        p.aborted = list(self.aborted_index)
        return p

    def aborted_for(self, fetch_offset, upper):
        """Aborted-transaction index entries a broker returns for a read_committed fetch of [fetch_offset, upper)."""
        return [(pid, first) for (pid, first, marker) in self.aborted_index if marker >= fetch_offset and first < upper]
