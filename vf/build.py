"""E0 - build isolation: compile the Cython record codec from /repo's *working tree* sources.

The .so files that sit in /repo/aiokafka/record/_crecords may be stale after a .pyx edit,
so checks never import them. Sources are hashed; on a miss they are copied to
/verif/.cache/ext/<hash>/{plain,asan}/, cythonized and compiled (gcc -O2 / clang ASan).
`install(variant)` puts a sys.meta_path finder first that maps the four module names to the
fresh build.  Nothing is written to /repo.
"""
import glob
import hashlib
import importlib.abc
import importlib.machinery
import importlib.util
import os
import shutil
import subprocess
import sys
import sysconfig

ROOT = os.path.dirname(os.path.dirname(os.path.abspath(__file__)))
REPO = os.environ.get("VERIF_REPO", "/repo")
SRC = os.path.join(REPO, "aiokafka", "record", "_crecords")
CACHE = os.path.join(ROOT, ".cache", "ext")
MODS = ["cutil", "default_records", "legacy_records", "memory_records"]
EXTRA_C = {"cutil": ["crc32c.c"], "default_records": ["crc32c.c"]}
ASAN_RT = "/usr/lib/llvm-14/lib/clang/14.0.6/lib/linux/libclang_rt.asan-x86_64.so"
PREFIX = "aiokafka.record._crecords."


def source_hash():
    h = hashlib.sha256()
    files = []
    for pat in ("*.pyx", "*.pxd", "*.pxi", "*.h", "crc32c.c"):
        files += glob.glob(os.path.join(SRC, pat))
    for f in sorted(files):
        h.update(os.path.basename(f).encode() + b"\0")
        with open(f, "rb") as fh:
            h.update(fh.read())
    h.update(sys.version.encode())
    return h.hexdigest()[:16]


def _run(cmd, cwd):
    r = subprocess.run(cmd, cwd=cwd, capture_output=True, text=True)
    if r.returncode != 0:
        raise RuntimeError(f"build step failed: {' '.join(cmd)}\n{r.stdout}\n{r.stderr}")


def build(variant="plain", quiet=True):
    """Return the directory holding the freshly built extension modules for `variant`."""
    hsh = source_hash()
    out = os.path.join(CACHE, hsh, variant)
    suffix = sysconfig.get_config_var("EXT_SUFFIX")
    if all(os.path.exists(os.path.join(out, m + suffix)) for m in MODS):
        return out
    os.makedirs(CACHE, exist_ok=True)
    tmp = os.path.join(CACHE, f"{hsh}.{variant}.tmp{os.getpid()}")
    shutil.rmtree(tmp, ignore_errors=True)
    pkg = os.path.join(tmp, "aiokafka", "record", "_crecords")
    os.makedirs(pkg)
    for d in (os.path.join(tmp, "aiokafka"), os.path.join(tmp, "aiokafka", "record"), pkg):
        open(os.path.join(d, "__init__.py"), "w").close()
    for pat in ("*.pyx", "*.pxd", "*.pxi", "*.h", "crc32c.c"):
        for f in glob.glob(os.path.join(SRC, pat)):
            shutil.copy(f, pkg)
    inc = sysconfig.get_paths()["include"]
    py = sys.executable
    for m in MODS:
        _run([py, "-m", "cython", "-3", "-I", tmp, os.path.join("aiokafka", "record", "_crecords", m + ".pyx")], tmp)
    procs = []
    for m in MODS:
        srcs = [os.path.join(pkg, m + ".c")] + [os.path.join(pkg, c) for c in EXTRA_C.get(m, [])]
        target = os.path.join(pkg, m + suffix)
        if variant == "asan":
            cmd = ["clang", "-O1", "-g", "-fno-omit-frame-pointer", "-fsanitize=address", "-fsanitize-recover=address", "-shared-libasan",
                   "-fPIC", "-shared", "-w", "-I", inc, "-I", pkg, *srcs, "-lz", "-o", target]
        else:
            cmd = ["gcc", "-O2", "-fPIC", "-shared", "-w", "-I", inc, "-I", pkg, *srcs, "-lz", "-o", target]
        procs.append((cmd, subprocess.Popen(cmd, cwd=tmp, stdout=subprocess.PIPE, stderr=subprocess.STDOUT, text=True)))
    for cmd, p in procs:
        o, _ = p.communicate()
        if p.returncode != 0:
            raise RuntimeError(f"compile failed: {' '.join(cmd)}\n{o}")
    os.makedirs(os.path.dirname(out), exist_ok=True)
    final_tmp = out + f".tmp{os.getpid()}"
    shutil.rmtree(final_tmp, ignore_errors=True)
    os.makedirs(final_tmp)
    for m in MODS:
        shutil.move(os.path.join(pkg, m + suffix), os.path.join(final_tmp, m + suffix))
    shutil.rmtree(tmp, ignore_errors=True)
    try:
        os.rename(final_tmp, out)
    except OSError:
        shutil.rmtree(final_tmp, ignore_errors=True)  # somebody else won the race
    # drop builds of other source hashes (disk is limited)
    others = sorted((d for d in os.listdir(CACHE) if not d.startswith(hsh)),
                    key=lambda d: os.path.getmtime(os.path.join(CACHE, d)), reverse=True)
    for d in others[6:]:  # keep a few recent builds: scratch worktrees are checked concurrently
        shutil.rmtree(os.path.join(CACHE, d), ignore_errors=True)
    if not quiet:
        print(f"built {variant} extension from working tree -> {out}")
    return out


class _Finder(importlib.abc.MetaPathFinder):
    def __init__(self, directory):
        self.directory = directory

    def find_spec(self, fullname, path=None, target=None):
        if not fullname.startswith(PREFIX):
            return None
        name = fullname[len(PREFIX):]
        if name not in MODS:
            return None
        fn = os.path.join(self.directory, name + sysconfig.get_config_var("EXT_SUFFIX"))
        loader = importlib.machinery.ExtensionFileLoader(fullname, fn)
        return importlib.util.spec_from_file_location(fullname, fn, loader=loader)


def install(variant="plain"):
    """Make `import aiokafka.record._crecords.X` resolve to the working-tree build. Call before importing aiokafka.record."""
    for m in MODS:
        if PREFIX + m in sys.modules:
            f = getattr(sys.modules[PREFIX + m], "__file__", "")
            if not f.startswith(CACHE):
                raise RuntimeError("aiokafka.record._crecords already imported from " + f)
    d = build(variant)
    for f in sys.meta_path:
        if isinstance(f, _Finder):
            f.directory = d
            return d
    sys.meta_path.insert(0, _Finder(d))
    return d


def asan_env(extra=None):
    env = dict(os.environ)
    env.update({
        "LD_PRELOAD": ASAN_RT,
        "PYTHONMALLOC": "malloc",
        "ASAN_OPTIONS": "detect_leaks=0:abort_on_error=0:exitcode=99:allocator_may_return_null=1:"
                        "handle_segv=1:symbolize=1:max_malloc_fill_size=0",
        "ASAN_SYMBOLIZER_PATH": "/usr/bin/llvm-symbolizer-14",
        "PYTHONHASHSEED": "0",
        "PYTHONPATH": f"{REPO}:{ROOT}",
    })
    if extra:
        env.update(extra)
    return env


if __name__ == "__main__":
    for v in ("plain", "asan"):
        print(v, build(v, quiet=False))
