"""Transactional producer scenarios (C07, C16): a real AIOKafkaProducer(transactional_id=...) against the simulated
cluster, plus the txn-specific simulator extensions (marker writing as schedulable deliveries, fencing by a second
InitProducerId, coordinator move, ACL state faults) and the independent read-committed reader.

params (JSON-able):
  mode: "c07" | "c16"
  baseline: "net" | "app"
  c07:  program: [txn, ...]   txn = {"sends": [[pidx, ...] per concurrent send task], "offsets": bool, "end": "commit"|"abort",
                                     "race": bool (do not join the send tasks before the end call)}
        kill: bool            offer KILL(pa) (budget k); after the kill a second instance "pb" with the same transactional
                              id starts and runs program_b
        program_b: [txn, ...]
        faults: list out of "drop-before","drop-after","lose","err","coord-move","delay-markers","acl-topic"
        wire_oracles: bool (default True)   liveness: bool (default True: only retriable faults are offered)
  c16:  calls: [call, ...] out of vf.txn_model.CALLS; faults: list out of "acl-topic","acl-group","fence","oos","acl-txn","retriable"
        epilogue: bool (default True)
Partitions: pidx 0 -> t-0 (leader b0), 1 -> u-0 (leader b2), 2 -> t-1 (leader b1).  Coordinators live on b0 (move: b1).
"""
import asyncio
import json
import struct

from vf import krecords, kwire
from vf.explore import Alt, Conn
from vf.runner import Acc, h64
from vf.simkafka import Cluster
from vf.txn_model import ABORTABLE, ABORTS, COMMITS, FATAL, ILLEGAL, Model

TID = "tx"
GROUP = "g"
PARTS = [("t", 0), ("u", 0), ("t", 1)]
TXN_APIS = ("InitProducerId", "AddPartitionsToTxn", "AddOffsetsToTxn", "TxnOffsetCommit", "EndTxn")
WATCHED = TXN_APIS + ("Produce",)
COORD = "coord"  # owner of the pseudo connections coordinator -> partition leader (marker writes)
H_CALL = 5.0  # virtual seconds a call may take after the later of (its start, the last fault)
H_FUT = 5.0
MARKER_DELAY = 0.055  # "slow marker write": longer than two ConcurrentTransactions back-offs of the producer

RETRIABLE_ERRS = {
    "InitProducerId": [16, 15, 14, 51], "AddPartitionsToTxn": [16, 15, 14, 51], "AddOffsetsToTxn": [16, 15, 14, 51],
    "EndTxn": [16, 15, 14, 51], "TxnOffsetCommit": [16, 15, 14], "FindCoordinator": [15], "Produce": [6, 7],
}


class TxnCluster(Cluster):
    """Cluster + transaction markers travelling as deliverable events (one pseudo connection per partition, so markers
    of different partitions are unordered, and the canonical order delivers them like any other message), fencing by a
    second InitProducerId, coordinator move."""

    def __init__(self, world, **kw):
        super().__init__(world, **kw)
        self.marker_delay = None  # one-shot: the next prepared transaction writes its markers this much later
        self._mconns = {}
        self.ghost_fence = set()  # transactional ids for which "another producer" still has to complete InitProducerId

    # -- pseudo connection plumbing --
    def describe(self, kind, conn, data):
        if conn.owner == COORD:
            return "marker"
        return super().describe(kind, conn, data)

    def on_client_write(self, conn, frame, ev):
        if conn.owner != COORD:
            super().on_client_write(conn, frame, ev)

    def on_request(self, conn, frame, fault=None):
        if conn.owner == COORD:
            return self._marker_arrived(frame)
        return super().on_request(conn, frame, fault)

    def _mconn(self, tp):
        c = self._mconns.get(tp)
        if c is None:
            c = self._mconns[tp] = Conn(self.world.net, self.partition(*tp).leader, COORD, f"{COORD}>{tp[0]}-{tp[1]}")
        return c

    def schedule_markers(self):
        for tid, st in sorted(self.txns.items()):
            if st.state not in ("PrepareCommit", "PrepareAbort"):
                continue
            sched = st.__dict__.setdefault("_sched", set())
            todo = [tp for tp in st.markers_pending if tp not in sched]
            if not todo:
                continue
            sched.update(todo)
            delay, self.marker_delay = self.marker_delay, None

            def enqueue(tid=tid, todo=todo):
                for tp in todo:
                    self.world.net.enqueue("req", self._mconn(tp), f"{tid}|{tp[0]}|{tp[1]}".encode())

            if delay:
                self.world.loop.call_later(delay, enqueue)
            else:
                enqueue()

    def _marker_arrived(self, frame):
        tid, topic, part = frame.decode().split("|")
        tp = (topic, int(part))
        st = self.txns[tid]
        if tp not in st.markers_pending:
            raise RuntimeError(f"marker for {tp} of {tid} is not pending")
        st.markers_pending.remove(tp)
        self.world.log("marker-written", tid, tp, "commit" if st.pending_commit else "abort")
        self.write_marker(self.partition(*tp), st.pid, st.epoch, st.pending_commit)
        if not st.markers_pending:
            st._complete()
            st._sched = set()
            self._after_complete(tid, st)

    def _after_complete(self, tid, st):
        if tid in self.ghost_fence:
            self.ghost_fence.discard(tid)
            st.init_producer()  # the other producer's retried InitProducerId now succeeds (epoch bumped again)

    def h_EndTxn(self, conn, req, entry, fault):
        super().h_EndTxn(conn, req, entry, fault)
        self._settle()

    def h_InitProducerId(self, conn, req, entry, fault):
        super().h_InitProducerId(conn, req, entry, fault)
        self._settle()

    def _settle(self):
        for tid, st in sorted(self.txns.items()):
            if st.state.startswith("Complete") and getattr(st, "_sched", None):
                st._sched = set()
            if st.state.startswith("Complete") and tid in self.ghost_fence:
                self._after_complete(tid, st)
        self.schedule_markers()

    def fault_alts(self, world, heads):
        """The generic per-request faults, reported to the scenario when taken (bounded-liveness clock, evidence)."""
        lost = {f"lose:{ev.conn.label}:{ev.info}": ev for ev in heads if ev.kind == "resp"}
        out = []
        for a in super().fault_alts(world, heads):
            out.append(Alt(a.label, a.kind, lambda a=a, ev=lost.get(a.label): self._take_fault(a, ev)))
        return out

    def _take_fault(self, a, ev):
        self.on_fault(a.label)
        a.fn()
        if ev is not None:
            self.stall(ev.conn)

    def stall(self, conn):
        """A reply that never comes: the broker handles the requests of one connection one at a time and answers in
        order, so nothing queued behind the unanswered request is answered either (a later reply overtaking the missing
        one would be a protocol violation by the broker, and the client would rightly report CorrelationIdError)."""
        net = self.world.net
        net.pending = [e for e in net.pending if not (e.conn is conn and e.kind == "resp")]
        conn.busy = True
        conn.stalled = True

    def reply(self, conn, req, body, info=None):
        if getattr(conn, "stalled", False):
            return
        super().reply(conn, req, body, info)

    def on_fault(self, label):
        pass

    def fence(self, tid):
        """Another producer instance with the same transactional id calls InitProducerId (state fault, Appendix A)."""
        st = self.txns.get(tid)
        if st is None:
            return
        code = st.init_producer()
        if code != 0:
            self.ghost_fence.add(tid)  # it keeps retrying until the markers are written
        self._settle()

    def move_coordinator(self):
        """Coordinator moves to another broker together with its (log-backed) state."""
        self.coordinator = (self.coordinator + 1) % len(self.nodes)

    def flush_markers(self):
        """End of run: everything the coordinator has decided is eventually written."""
        for tid, st in sorted(self.txns.items()):
            n = 0
            while st.state in ("PrepareCommit", "PrepareAbort") and st.markers_pending and n < 100:
                tp = st.markers_pending[0]
                self._marker_arrived(f"{tid}|{tp[0]}|{tp[1]}".encode())
                n += 1


def read_committed(cluster):
    """Independent read-committed view: {(topic, partition): [values in offset order]} built from the stored bytes only
    (control records decoded here; the simulator's aborted-transaction index is not used)."""
    out = {}
    for t in cluster.topics.values():
        for p in t.partitions:
            vis = []
            open_ = {}
            for st in p.log:
                b = st.batch
                if b.is_control:
                    _ver, typ = struct.unpack(">hh", b.records[0].key[:4])
                    recs = open_.pop(b.producer_id, [])
                    if typ == 1:
                        vis.extend(recs)
                elif b.is_transactional:
                    open_.setdefault(b.producer_id, []).extend((r.offset, r.value) for r in b.records)
                else:
                    vis.extend((r.offset, r.value) for r in b.records)
            vis.sort()
            out[(t.name, p.index)] = [v for _, v in vis]
    return out


def illegal_class_ok(call, exc):
    """Out-of-order call: IllegalOperation / IllegalStateError (KafkaError) family; the transition-table guard of
    begin/commit/abort is an `assert`, which is accepted as well.  Internal accidents (TypeError, AttributeError, ...)
    are not an answer to an illegal call."""
    from aiokafka.errors import IllegalOperation, KafkaError

    if isinstance(exc, (IllegalOperation, KafkaError)):
        return True
    return isinstance(exc, AssertionError) and not call.startswith("send") and call != "offsets"


class AppError(Exception):
    """The application's own exception leaving `async with producer.transaction()`."""


class TxnScenario:
    def __init__(self, params):
        self.p = dict(params)
        self.mode = self.p.get("mode", "c07")
        self.violations = []
        self.world = None
        self.ev = []  # ordered monitor events
        self.txns = []  # transaction records (dicts), in begin order
        self.own = {}  # owner -> {"cur": txn|None, "acked": set(), "prod": producer, "started": bool}
        self.calls = []  # (owner, index, name, result)
        self.pending_req = {}  # (conn label, corr) -> (api_key, version, api name, owner)
        self.last_fault_t = 0.0
        self.faults_seen = []
        self.booting = set()
        self.killed = False
        self.start_results = {}
        self.acl_off = False
        self.fatal_step = None
        self.fatal_info = None
        self.nfaults = 0
        self.write_step = {}
        self.err_sources = []
        self.last_exc = None
        self.fatal_t = None

    def fail(self, oracle, sig, msg):
        if self.p.get("family"):
            sig = dict(sig, family=self.p["family"])  # scenario family outside the property's own fault alphabet
        if not any(o == oracle and s == sig for o, s, _ in self.violations):  # one report per fact and execution
            self.violations.append((oracle, sig, msg))

    # ================================================================== setup
    def setup(self, world):
        p = self.p
        cl = TxnCluster(world, nbrokers=3, coordinator=0,
                        topics={"t": {"partitions": 2, "leaders": {0: 0, 1: 1}}, "u": {"partitions": 1, "leaders": {0: 2}},
                                "src": {"partitions": 8}})
        world.server = cl
        self.cluster = cl
        world.STEP_CAP = 100_000  # ordinary runs need a few thousand steps; see the "metadata storm" note in C16.py
        world.app_eager = p.get("baseline", "net") == "app"
        world.p_enabled = bool(p.get("p_enabled", self.mode == "c07"))
        kinds = list(p.get("faults", ()))
        self.kinds = kinds
        cl.fault_kinds = tuple(k for k in kinds if k in ("drop-before", "drop-after", "lose", "err"))
        cl.fault_apis = set(p.get("fault_apis", WATCHED + ("FindCoordinator",)))
        cl.err_codes = {k: list(v) for k, v in p.get("errs", RETRIABLE_ERRS).items()} if "err" in kinds else {}
        cl.on_fault = lambda label: self.note_fault(label.split(":")[0], label.split(":")[-1])
        cl.write_hooks.append(self.on_write)
        cl.response_hooks.append(self.on_response)
        world.extra_alts.append(self.state_fault_alts)
        self.kill_fut = None
        if p.get("kill"):
            world.extra_alts.append(self.kill_alts)
        world.main_task = world.spawn("sup", self.supervisor)

    # ================================================================== explorer alternatives
    def _req_heads(self, world, apis):
        for ev in world.net.heads():
            if ev.kind == "req" and ev.conn.owner != COORD and ev.info in apis and ev.conn.owner not in world.loop.dead:
                yield ev

    def note_fault(self, kind, api):
        self.last_fault_t = self.world.now()
        self.nfaults += 1
        self.faults_seen.append((kind, api))
        self.ev.append(("fault", kind, api, self.world.transitions))
        self.world.log("FAULT", kind, api)

    def state_fault_alts(self, world, quiescent):
        cl = self.cluster
        if not quiescent or not cl.faults_enabled or world.chooser.remaining("f") <= 0:
            return []
        kinds = self.kinds
        out = []
        if self.mode == "c07":
            for ev in self._req_heads(world, TXN_APIS):
                lab = f"{ev.conn.label}:{ev.info}"
                if "coord-move" in kinds and not getattr(self, "_moved", False):
                    out.append(Alt(f"coord-move@{lab}", "f", lambda ev=ev: self.f_coord_move(ev)))
                if "delay-markers" in kinds and ev.info == "EndTxn" and cl.marker_delay is None:
                    out.append(Alt(f"delay-markers@{lab}", "f", lambda ev=ev: self.f_delay_markers(ev)))
            if "acl-topic" in kinds and not self.acl_off:
                for ev in self._req_heads(world, ("AddPartitionsToTxn",)):
                    out.append(Alt(f"acl-topic@{ev.conn.label}:{ev.info}", "f", lambda ev=ev: self.f_acl_topic(ev, last=True)))
            return out
        # c16: one error at one transactional request (delivered at once, so "at this request" is exact)
        if self.nfaults:
            return []
        for ev in self._req_heads(world, WATCHED):
            lab = f"{ev.conn.label}:{ev.info}"
            api = ev.info
            if "acl-topic" in kinds:
                out.append(Alt(f"acl-topic@{lab}", "f", lambda ev=ev: self.f_acl_topic(ev)))
            if "acl-group" in kinds:
                out.append(Alt(f"acl-group@{lab}", "f", lambda ev=ev: self.f_acl_group(ev)))
            if "fence" in kinds:
                out.append(Alt(f"fence@{lab}", "f", lambda ev=ev: self.f_fence(ev)))
            if "oos" in kinds and api == "Produce":
                out.append(Alt(f"oos@{lab}", "f", lambda ev=ev: self.f_err(ev, 45, "oos")))
            if "acl-txn" in kinds:
                out.append(Alt(f"acl-txn@{lab}", "f", lambda ev=ev: self.f_acl_txn(ev)))
            if "retriable" in kinds:
                code = 6 if api == "Produce" else 14
                out.append(Alt(f"retriable{code}@{lab}", "f", lambda ev=ev, code=code: self.f_err(ev, code, "retriable")))
        return out

    def _deliver(self, ev):
        if ev in self.world.net.pending:
            self.world.net.deliver(ev)

    def f_coord_move(self, ev):
        self._moved = True
        self.note_fault("coord-move", ev.info)
        self.cluster.move_coordinator()

    def f_delay_markers(self, ev):
        self.note_fault("delay-markers", ev.info)
        self.cluster.marker_delay = MARKER_DELAY
        self._deliver(ev)

    def _req_topics(self, ev):
        try:
            body = kwire.decode_request(ev.data).body
        except Exception:  # noqa: BLE001
            return []
        if ev.info == "AddPartitionsToTxn":
            return [td["name"] for td in body["topics"]]
        if ev.info == "Produce":
            return [td["name"] for td in body["topic_data"]]
        return []

    def f_acl_topic(self, ev, last=False):
        topics = self._req_topics(ev) or ["t"]
        name = sorted(topics)[-1] if last else sorted(topics)[0]
        self.note_fault("acl-topic", ev.info)
        self.acl_off = True
        self.cluster.topics[name].authorized = False
        self._deliver(ev)

    def f_acl_group(self, ev):
        self.note_fault("acl-group", ev.info)
        self.acl_off = True
        self.cluster.group_authorized = False
        self._deliver(ev)

    def f_acl_txn(self, ev):
        self.note_fault("acl-txn", ev.info)
        self.cluster.txn_authorized = False
        self._deliver(ev)

    def f_fence(self, ev):
        self.note_fault("fence", ev.info)
        self.cluster.fence(TID)
        self._deliver(ev)

    def f_err(self, ev, code, kind):
        self.note_fault(kind, ev.info)
        self.cluster._deliver_with_fault(ev, code)

    def heal_acls(self):
        if self.acl_off:
            self.acl_off = False
            for t in self.cluster.topics.values():
                t.authorized = True
            self.cluster.group_authorized = True
            self.world.log("ACLs restored")

    def kill_alts(self, world, quiescent):
        if not quiescent or self.killed or world.chooser.remaining("k") <= 0 or self.kill_fut is None or self.kill_fut.done():
            return []
        if not self.own.get("pa", {}).get("alive"):
            return []
        return [Alt("kill:pa", "k", self.do_kill)]

    def do_kill(self):
        world = self.world
        self.killed = True
        self.last_fault_t = world.now()
        self.ev.append(("kill", "pa", world.transitions))
        world.record("KILL", "pa")
        world.loop.kill("pa")
        self.own["pa"]["alive"] = False
        self.booting.discard("pa")
        self._refreeze()
        for name in [n for n in world.gates if n.startswith("pa.")]:
            del world.gates[name]
        self.kill_fut.set_result(None)

    # ================================================================== programs
    async def supervisor(self):
        world = self.world
        p = self.p
        if self.mode == "c16":
            a = world.spawn("pa", self.main_c16)
            await asyncio.wait([a])
            self._reraise(a)
            return
        self.kill_fut = world.loop.create_future()
        a = world.spawn("pa", self.main_c07, "pa", p["program"])
        await asyncio.wait([a, self.kill_fut], return_when=asyncio.FIRST_COMPLETED)
        if self.kill_fut.done():
            b = world.spawn("pb", self.main_c07, "pb", p.get("program_b") or [{"sends": [[0]], "end": "commit"}])
            await asyncio.wait([b])
            self._reraise(b)
        else:
            self._reraise(a)

    def _reraise(self, task):
        if task.done() and not task.cancelled() and task.exception() is not None:
            raise task.exception()

    def _refreeze(self):
        self.world.frozen = bool(self.booting)
        self.cluster.faults_enabled = not self.booting and not getattr(self, "_quiet", False)

    async def bounded(self, coro, horizon=H_CALL):
        """Run one API call; it may take `horizon` virtual seconds counted from the later of its start and the last fault."""
        world = self.world
        task = world.loop.create_task(coro)
        start = world.now()
        while True:
            remaining = max(start, self.last_fault_t) + horizon - world.now()
            if remaining <= 0:
                break
            done, _ = await asyncio.wait([task], timeout=remaining)
            if done:
                break
        if not task.done():
            return ("hang",)
        if task.cancelled():
            return ("exc", "CancelledError", None)
        exc = task.exception()
        if exc is not None:
            return ("exc", type(exc).__name__, exc)
        return ("ok", task.result())

    async def start_producer(self, owner, freeze_all):
        from aiokafka import AIOKafkaProducer

        world = self.world
        prod = AIOKafkaProducer(bootstrap_servers="b0:9000", client_id=owner, transactional_id=TID,
                                request_timeout_ms=self.p.get("request_timeout_ms", 1000),
                                retry_backoff_ms=self.p.get("retry_backoff_ms", 20), metadata_max_age_ms=1_000_000,
                                linger_ms=0, max_batch_size=self.p.get("max_batch_size", 16384))
        self.own[owner] = {"cur": None, "acked": set(), "prod": prod, "alive": True, "freeze_all": freeze_all}
        self.booting.add(owner)
        self._refreeze()
        res = await self.bounded(prod.start(), horizon=2 * H_CALL)
        self.booting.discard(owner)
        self._refreeze()
        self.start_results[owner] = res[:2]
        world.record("start", owner, res[0], res[1] if res[0] == "exc" else "")
        return prod if res[0] == "ok" else None

    def new_txn(self, owner):
        T = {"owner": owner, "idx": len([t for t in self.txns if t["owner"] == owner]), "sends": [], "offsets": None,
             "end": None, "end_res": None, "begin_t": self.world.now(), "endtxn_written": False, "implicit": False}
        self.txns.append(T)
        self.own[owner]["cur"] = T
        self.own[owner]["acked"] = set()
        return T

    def record_call(self, owner, name, res, T=None):
        r = res[:2] if res[0] == "exc" else (res[0],)
        self.last_exc = res[2] if res[0] == "exc" else None
        self.calls.append((owner, name, r))
        self.world.record("call", owner, name, *r)
        return r

    async def do_send(self, owner, T, pidx, tag):
        prod = self.own[owner]["prod"]
        topic, part = PARTS[pidx]
        value = f"{owner}.{tag}".encode()
        res = await self.bounded(prod.send(topic, value=value, partition=part, timestamp_ms=1000 + len(self.calls)))
        r = self.record_call(owner, "send", res)
        if res[0] == "ok":
            fut = res[1]
            rec = {"value": value, "tp": (topic, part), "fut": fut, "res": None, "t": self.world.now()}
            if T is None:
                T = self.own[owner]["cur"]
            if T is None or T["end_res"] is not None:
                T = self.new_txn(owner)
                T["implicit"] = True  # accepted outside any open transaction
                self.own[owner]["cur"] = None
            T["sends"].append(rec)
            fut.add_done_callback(lambda f, rec=rec: self.on_resolved(rec, f))
        return r

    def on_resolved(self, rec, f):
        if f.cancelled():
            rec["res"] = ("cancelled",)
        elif f.exception() is not None:
            rec["res"] = ("exc", type(f.exception()).__name__)
        else:
            rec["res"] = ("ok", f.result().offset)
        self.world.record("resolved", rec["value"], *rec["res"])

    async def do_offsets(self, owner, T):
        from aiokafka.structs import TopicPartition

        prod = self.own[owner]["prod"]
        idx = self.txns.index(T) if T is not None else 7
        offs = {("src", idx % 8): 100 + len(self.txns)}
        res = await self.bounded(prod.send_offsets_to_transaction({TopicPartition(*k): v for k, v in offs.items()}, GROUP))
        r = self.record_call(owner, "offsets", res)
        if T is not None:
            T["offsets"] = {"tps": offs, "res": r}
        return r

    async def do_end(self, owner, T, how):
        prod = self.own[owner]["prod"]
        if T is not None:
            T["end"] = "commit" if how in COMMITS else "abort"
            T["end_called"] = self.world.now()
        if how == "commit":
            coro = prod.commit_transaction()
        elif how == "abort":
            coro = prod.abort_transaction()
        elif how == "exit_clean":
            coro = prod.transaction().__aexit__(None, None, None)
        else:
            e = AppError("application error inside the transaction block")
            coro = prod.transaction().__aexit__(AppError, e, None)
        res = await self.bounded(coro)
        r = self.record_call(owner, how, res)
        if T is not None:
            T["end_res"] = r
            if r[0] == "ok":
                self.own[owner]["cur"] = None
        return r

    # ---- C07 -----------------------------------------------------------------------------------------
    async def main_c07(self, owner, program):
        prod = await self.start_producer(owner, freeze_all=False)
        if prod is None:
            return
        for ti, spec in enumerate(program):
            ok = await self.run_txn(owner, ti, spec)
            if not ok:
                break
        await self.settle(owner)

    async def run_txn(self, owner, ti, spec):
        world = self.world
        prod = self.own[owner]["prod"]
        await world.gate(f"{owner}.t{ti}.begin")
        res = await self.bounded(prod.begin_transaction())
        r = self.record_call(owner, "begin", res)
        if r[0] != "ok":
            return False
        T = self.new_txn(owner)
        tasks = [world.spawn(owner, self.send_task, owner, T, ti, si, parts) for si, parts in enumerate(spec["sends"])]
        if spec.get("offsets"):
            tasks.append(world.spawn(owner, self.offsets_task, owner, T, ti))
        if tasks and not spec.get("race"):
            await asyncio.wait(tasks)
        elif tasks:
            await asyncio.sleep(0)  # the send tasks reach their first gates before the end gate exists (canonical order: sends first)
            await asyncio.sleep(0)
        await world.gate(f"{owner}.t{ti}.end")
        if spec["end"] == "abort":
            self.heal_acls()
        r = await self.do_end(owner, T, spec["end"])
        if tasks:
            await asyncio.wait(tasks)
        return r[0] == "ok"

    async def send_task(self, owner, T, ti, si, parts):
        for j, pidx in enumerate(parts):
            await self.world.gate(f"{owner}.t{ti}.s{si}.{j}")
            await self.do_send(owner, T, pidx, f"T{ti}.s{si}.{j}")

    async def offsets_task(self, owner, T, ti):
        await self.world.gate(f"{owner}.t{ti}.offsets")
        await self.do_offsets(owner, T)

    async def settle(self, owner):
        """Wait (bounded) for every send future of this producer, then stop it (bounded)."""
        world = self.world
        futs = [s["fut"] for T in self.txns if T["owner"] == owner for s in T["sends"] if not s["fut"].done()]
        if futs:
            deadline_left = H_FUT
            await asyncio.wait(futs, timeout=deadline_left)
        self._quiet = True
        self._refreeze()
        prod = self.own[owner]["prod"]
        res = await self.bounded(prod.stop(), horizon=H_CALL)
        world.record("stop", owner, res[0])

    # ---- C16 -----------------------------------------------------------------------------------------
    async def main_c16(self):
        world = self.world
        owner = "pa"
        prod = await self.start_producer(owner, freeze_all=True)
        if prod is None:
            raise RuntimeError(f"fault-free start() failed: {self.start_results}")
        calls = list(self.p["calls"])
        self.n_program = len(calls)
        for i, name in enumerate(calls):
            await world.gate(f"pa.c{i}.{name}")
            await self.c16_call(i, name)
        # everything accepted so far gets time to resolve, then the epilogue probes the state the producer is left in
        await self.wait_futs(owner)
        if self.p.get("epilogue", True):
            self._quiet = True
            self._refreeze()
            self.heal_acls()
            m = self.model_now()
            epi = []
            if m.state == "FATAL":
                epi = ["begin"]
            else:
                if m.state in ("IN_TXN", "ABORTABLE"):
                    epi.append("abort")
                epi += ["begin", "send0", "commit"]
            self.epilogue_from = len(self.calls)
            self.epilogue_txn_from = len(self.txns)
            for k, name in enumerate(epi):
                await self.c16_call(len(calls) + k, name, epilogue=True)
            await self.wait_futs(owner)
        self._quiet = True
        self._refreeze()
        res = await self.bounded(prod.stop(), horizon=H_CALL)
        world.record("stop", owner, res[0])

    async def wait_futs(self, owner):
        futs = [s["fut"] for T in self.txns for s in T["sends"] if not s["fut"].done()]
        if futs:
            await asyncio.wait(futs, timeout=H_FUT)

    async def c16_call(self, i, name, epilogue=False):
        world = self.world
        owner = "pa"
        prod = self.own[owner]["prod"]
        self.ev.append(("call", i, name, world.transitions, world.loop.iterations, epilogue, self.acl_off))
        cur = self.own[owner]["cur"]
        if name == "begin":
            res = await self.bounded(prod.begin_transaction())
            r = self.record_call(owner, "begin", res)
            if r[0] == "ok":
                self.new_txn(owner)
        elif name in ("send0", "send1"):
            r = await self.do_send(owner, None, int(name[-1]), f"c{i}")
        elif name == "offsets":
            r = await self.do_offsets(owner, cur)
        else:
            if name in ABORTS:
                self.heal_acls()  # the operator repaired the ACL; the application aborts and starts over
            r = await self.do_end(owner, cur, name)
        self.ev.append(("ret", i, name, r, world.transitions, world.loop.iterations, self.last_exc))

    def model_now(self):
        """Model state after the monitor events seen so far (used only to choose the epilogue)."""
        m = Model()
        mid = None
        for e in self.ev:
            if e[0] == "call":
                mid = []
            elif e[0] == "err":
                if mid is not None:
                    mid.append(e[1])
                else:
                    m.error(e[1])
            elif e[0] == "ret":
                m.step(e[2], e[3][0] == "ok", mid or ())
                mid = None
        return m

    # ================================================================== wire monitors
    def on_write(self, conn, frame):
        """The instant a request is written by a client."""
        world = self.world
        api_key, ver, corr = kwire.peek_request_header(frame)
        api = kwire.API_NAMES.get(api_key)
        owner = conn.owner
        self.pending_req[(conn.label, corr)] = (api_key, ver, api, owner)
        self.write_step[(conn.label, corr)] = world.transitions
        if api == "FindCoordinator" and owner in self.booting and not self.own[owner].get("freeze_all"):
            # bootstrap (ApiVersions/Metadata) is over: InitProducerId and its coordinator lookup are inside C07's quantifier
            self.booting.discard(owner)
            self._refreeze()
        if api not in WATCHED:
            return
        self.ev.append(("write", api, world.transitions, owner))
        st = self.own.get(owner)
        if st is None:
            return
        cur = st["cur"]
        if self.fatal_step is not None and world.transitions > self.fatal_step and self.mode == "c16":
            self.fail("after-fatal", dict(self.err_sig(), what="request-after-fatal-error"),
                      f"{api} written by {owner} at t={world.now()} after the fatal error {self.fatal_info} had been delivered and processed")
        if not self.p.get("wire_oracles", self.mode == "c07"):
            return
        if api == "Produce":
            req = kwire.decode_request(frame)
            in_txn = cur is not None and not cur["endtxn_written"] and not (cur["end_res"] and cur["end_res"][0] == "ok")
            for td in req.body["topic_data"]:
                for pd in td["partition_data"]:
                    tp = (td["name"], pd["index"])
                    try:
                        batches = krecords.decode(pd["records"] or b"")
                    except krecords.CodecError:
                        batches = []
                    for b in batches:
                        if not b.is_transactional:
                            self.fail("txn-flag", {"what": "non-transactional-batch-from-transactional-producer"},
                                      f"{owner}: Produce to {tp} carries a batch without the transactional flag (pid {b.producer_id})")
                    if not in_txn:
                        self.fail("outside-txn", {"what": "produce-outside-transaction",
                                                  "after": "end" if cur is not None else "none"},
                                  f"{owner}: Produce to {tp} written at t={world.now()} outside begin..end")
                    elif tp not in st["acked"]:
                        # discriminating fact: had the coordinator just refused to add this very partition (error reply)?
                        self.unadded_produce = True
                        self.fail("add-before-produce", {"what": "produce-before-partition-added",
                                                         "add_was_refused": tp in st.get("refused", ())},
                                  f"{owner}: Produce to {tp} written at t={world.now()} before the coordinator acknowledged adding "
                                  f"it to the current transaction (acknowledged: {sorted(st['acked'])})")
        elif api == "EndTxn":
            if cur is not None:
                unresolved = [s["value"] for s in cur["sends"] if not s["fut"].done()]
                if unresolved:
                    self.fail("end-before-flush", {"what": "endtxn-while-sends-unresolved"},
                              f"{owner}: EndTxn written at t={world.now()} while {unresolved} accepted in this transaction are unresolved")
                cur["endtxn_written"] = True
            st["acked"] = set()

    def on_response(self, conn, frame):
        """The instant a response is handed to the client."""
        world = self.world
        (corr,) = struct.unpack_from(">i", frame)
        info = self.pending_req.pop((conn.label, corr), None)
        if info is None:
            return
        api_key, ver, api, owner = info
        if api not in WATCHED and api != "FindCoordinator":
            return
        try:
            _, body = kwire.decode_response(api_key, ver, frame)
        except Exception:  # noqa: BLE001
            return
        codes = []
        if api == "AddPartitionsToTxn":
            good = []
            for tr in body["results"]:
                for r in tr["results"]:
                    codes.append(r["error_code"])
                    if r["error_code"] == 0:
                        good.append((tr["name"], r["partition_index"]))
                    elif owner in self.own:
                        self.own[owner].setdefault("refused", set()).add((tr["name"], r["partition_index"]))
            if owner in self.own:
                self.own[owner]["acked"].update(good)
        elif api == "TxnOffsetCommit":
            codes = [r["error_code"] for t in body["topics"] for r in t["partitions"]]
        elif api == "Produce":
            codes = [r["error_code"] for t in body["responses"] for r in t["partition_responses"]]
        else:
            codes = [body["error_code"]]
        for code in sorted(set(codes)):
            if code in ABORTABLE or code in FATAL:
                self.ev.append(("err", code, api, world.transitions))
                self.err_sources.append(f"{ABORTABLE.get(code) or FATAL.get(code)}@{api}")
                if code in FATAL and self.fatal_step is None:
                    self.fatal_step = world.transitions
                    self.fatal_info = f"{FATAL[code]}@{api}"
                    self.fatal_t = world.now()

    # ================================================================== end-of-run oracles
    def finish(self, world):
        if world.capped:
            return
        mt = world.main_task
        if mt.done() and not mt.cancelled() and mt.exception() is not None:
            exc = mt.exception()
            self.fail("harness-main", {"what": "main-exception", "type": type(exc).__name__}, f"scenario main failed: {exc!r}")
            return
        self.cluster.flush_markers()
        self.visible = read_committed(self.cluster)
        g = self.cluster.groups.get(GROUP)
        self.goffsets = {tp: off for tp, (off, _m) in g.offsets.items()} if g is not None else {}
        if self.mode == "c07":
            self.check_atomicity()
            if self.p.get("liveness", True):
                self.check_liveness()
        else:
            self.check_model()

    def _vis_count(self, value):
        return sum(vals.count(value) for vals in self.visible.values())

    def check_atomicity(self):
        """(1) read-committed view vs the application's knowledge."""
        for T in self.txns:
            name = f"{T['owner']}#T{T['idx']}"
            vals = [s["value"] for s in T["sends"]]
            seen = [v for v in vals if self._vis_count(v) > 0]
            dups = [v for v in vals if self._vis_count(v) > 1]
            offs = T["offsets"]["tps"] if T["offsets"] and T["offsets"]["res"][0] == "ok" else {}
            offs_seen = [tp for tp, off in offs.items() if self.goffsets.get(tp) == off]
            committed_ok = T["end"] == "commit" and T["end_res"] is not None and T["end_res"][0] == "ok"
            commit_requested = T["end"] == "commit"
            what = "aborted" if T["end"] == "abort" else ("never-ended" if T["end"] is None else "commit-failed")
            if T.get("implicit"):
                what = "outside-transaction"
            if dups:
                self.fail("atomicity", {"what": "record-visible-twice"}, f"{name}: {dups} visible more than once: {self.visible}")
            if committed_ok:
                missing = [v for v in vals if v not in seen]
                if missing:
                    self.fail("atomicity", {"what": "committed-records-missing", "some_visible": bool(seen)},
                              f"{name}: commit_transaction() returned but {missing} are not visible to a read-committed reader "
                              f"(visible: {self.visible}; futures: {[(s['value'], s['res']) for s in T['sends']]})")
                moff = [tp for tp in offs if tp not in offs_seen]
                if moff:
                    self.fail("atomicity", {"what": "committed-offsets-missing"},
                              f"{name}: commit_transaction() returned but offsets {moff} are not committed for group {GROUP}: {self.goffsets}")
                continue
            if not commit_requested and (seen or offs_seen):
                self.fail("atomicity", {"what": "uncommitted-visible", "txn": what,
                                        "after_produce_to_unadded_partition": bool(getattr(self, "unadded_produce", False))},
                          f"{name} ({what}): {seen} {offs_seen} visible to a read-committed reader although commit was never requested "
                          f"for this transaction; visible: {self.visible}")
                continue
            if 0 < len(seen) + len(offs_seen) < len(vals) + len(offs):
                self.fail("atomicity", {"what": "partially-visible", "txn": what},
                          f"{name} ({what}): only {seen} {offs_seen} of {vals} {sorted(offs)} visible")
        # nothing else may be visible
        known = {s["value"] for T in self.txns for s in T["sends"]}
        for tp, vals in self.visible.items():
            extra = [v for v in vals if v not in known]
            if extra:
                self.fail("atomicity", {"what": "unknown-record-visible"}, f"{tp}: {extra} visible but never accepted by send()")

    def sender_death(self, owner):
        """Class chain of the exception that ended the producer's sender task ('' if it is alive or was cancelled)."""
        prod = self.own.get(owner, {}).get("prod")
        task = getattr(getattr(prod, "_sender", None), "_sender_task", None)
        if task is None or not task.done() or task.cancelled() or task.exception() is None:
            return ""
        names = []
        exc = task.exception()
        while exc is not None and len(names) < 5:
            names.append(type(exc).__name__)
            exc = exc.__cause__ or exc.__context__
        return "<".join(names)

    def check_liveness(self):
        """(3) only retriable faults were offered: every call of the live producer returns within the horizon."""
        live = "pb" if self.killed else "pa"
        death = self.sender_death(live)
        if death:
            # everything else that went wrong in this run is a consequence of the sender task having died
            self.fail("liveness", {"what": "sender-task-died", "chain": "<".join(death.split("<")[:3])},
                      f"{live}: the sender task died with {death} although only retriable faults occurred: {self.faults_seen}; calls {self.calls}")
            return
        for owner, name, r in self.calls:
            if owner != live or name == "send":
                continue  # a send() that raises (e.g. metadata timeout, or refused because commit was already called) adds no record
            if r[0] != "ok":
                self.fail("liveness", {"what": "call-did-not-succeed", "call": name, "got": r[1] if r[0] == "exc" else r[0]},
                          f"{owner}.{name}() -> {r} although only retriable faults occurred: {self.faults_seen}")
        for T in self.txns:
            if T["owner"] != live:
                continue
            for s in T["sends"]:
                if s["res"] is None or s["res"][0] != "ok":
                    got = "unresolved" if s["res"] is None else s["res"][-1]
                    self.fail("liveness", {"what": "send-future-not-ok", "got": got},
                              f"{owner}: future of {s['value']} -> {s['res']} although only retriable faults occurred: {self.faults_seen}")
        sr = self.start_results.get(live)
        if sr is not None and sr[0] == "hang":
            self.fail("liveness", {"what": "start-hang"}, f"{live}.start() did not return within {2 * H_CALL}s after the last fault: {self.faults_seen}")
        # the program of the live producer ran to its end
        prog = self.p.get("program_b") or [{}] if self.killed else self.p["program"]
        ended = [T for T in self.txns if T["owner"] == live and T["end_res"] is not None and T["end_res"][0] == "ok"]
        if sr is not None and sr[0] == "ok" and len(ended) < len(prog) and not self.violations:
            self.fail("liveness", {"what": "program-incomplete"}, f"{live}: {len(ended)} of {len(prog)} transactions ended: {self.calls}")

    def check_model(self):
        """C16: call outcomes vs the reference model; requests caused by illegal calls; behaviour after a fatal error."""
        m = Model()
        cur = None
        injected = "@".join(self.faults_seen[0]) if self.faults_seen else "none"
        self.injected = injected
        source = "none"  # first abortable / fatal error reply delivered so far
        fatal_so_far = "none"
        for e in self.ev:
            if e[0] == "call":
                cur = {"i": e[1], "name": e[2], "step": e[3], "iter": e[4], "epi": e[5], "acl_off": e[6], "mid": [], "writes": [],
                       "state": m.state}
            elif e[0] == "err":
                if e[1] in FATAL and fatal_so_far == "none":
                    fatal_so_far = f"{FATAL[e[1]]}@{e[2]}"
                if source == "none":
                    source = f"{ABORTABLE.get(e[1]) or FATAL.get(e[1])}@{e[2]}"
                if cur is not None:
                    cur["mid"].append(e[1])
                else:
                    m.error(e[1])
            elif e[0] == "write":
                if cur is not None:
                    cur["writes"].append(e[1])
            elif e[0] == "ret":
                name, r = e[2], e[3]
                verdict, classes = m.expect(name, cur["mid"])
                if name.startswith("send") and cur["acl_off"] and verdict == "returns":
                    verdict = "any"  # the topic may be known to be unauthorized from Metadata: send() may refuse the record
                call = "send" if name.startswith("send") else name
                # discriminating facts: what went wrong, which injected error, which error reply the producer saw first;
                # the call and the model state only where no error is involved (out-of-order calls)
                sig = {"source": source, "fatal": fatal_so_far}
                if source == "none":
                    sig.update(call=call, state=cur["state"])
                where = f"call #{cur['i']} {name}() in model state {cur['state']}" + (f" (errors delivered during the call: {cur['mid']})" if cur["mid"] else "") + (" [epilogue]" if cur["epi"] else "")
                if r[0] == "hang":
                    self.fail("model", dict(sig, what="call-hangs"), f"{where} did not return within {H_CALL}s; fault {self.faults_seen}")
                elif verdict == "returns" and r[0] != "ok":
                    self.fail("model", dict(sig, what="legal-call-raised", got=r[1]),
                              f"{where} raised {r[1]}; the model says it returns; fault {self.faults_seen}; calls {self.calls}")
                elif verdict == "raises" and r[0] == "ok":
                    kind = ("illegal-call-accepted" if classes == ILLEGAL else
                            "call-after-fatal-error-succeeded" if (cur["state"] == "FATAL" or any(c in FATAL for c in cur["mid"])) else
                            "commit-after-abortable-error-returned")
                    self.fail("model", dict(sig, what=kind),
                              f"{where} returned normally; the model says it raises {classes or m.fatal}; fault {self.faults_seen}; calls {self.calls}")
                elif verdict == "raises" and classes == ILLEGAL:
                    if not illegal_class_ok(name, e[6]):
                        self.fail("model", dict(sig, what="illegal-call-wrong-exception", got=r[1]),
                                  f"{where} raised {r[1]}: not an IllegalOperation / IllegalStateError answer")
                    if cur["writes"] and e[5] > cur["iter"]:
                        self.fail("model", dict(sig, what="illegal-call-caused-requests"),
                                  f"{where}: requests {cur['writes']} were written while the illegal call was in progress")
                elif verdict == "raises" and isinstance(classes, set) and classes and r[1] not in classes:
                    self.fail("model", dict(sig, what="wrong-error", got=r[1]),
                              f"{where} raised {r[1]}; the stored abortable error {sorted(classes)} must be raised")
                m.step(name, r[0] == "ok", cur["mid"])
                cur = None
        self.final_model = m.state
        # fatal error: every send pending at that moment fails (resolves, and not with a result obtained afterwards)
        for T in self.txns:
            for s in T["sends"]:
                if s["res"] is None:
                    self.fail("model", dict(self.err_sig(), what="send-future-unresolved"),
                              f"future of {s['value']} unresolved {H_FUT}s after the program; fatal={self.fatal_info}; fault {self.faults_seen}")
        # effects: what a read-committed reader sees must be exactly the transactions whose commit returned
        for T in self.txns:
            vals = [s["value"] for s in T["sends"]]
            ok = T["end"] == "commit" and T["end_res"] is not None and T["end_res"][0] == "ok"
            seen = [v for v in vals if self._vis_count(v)]
            if ok and any(T is x for x in self._epilogue_txns()) and len(seen) < len(vals):
                self.fail("model", dict(self.err_sig(), what="new-transaction-not-visible"),
                          f"the epilogue transaction committed but {vals} are not visible: {self.visible}")
            if T.get("implicit") and seen:
                self.fail("model", dict(self.err_sig(), what="illegal-send-reached-the-log"), f"{seen} accepted outside a transaction are visible")
        if self.fatal_step is not None:
            for e in self.cluster.arrivals:
                ws = self.write_step.get((e["conn"], e["corr"]))
                if e["api"] not in WATCHED or ws is None or ws <= self.fatal_step:
                    continue
                if e.get("ok") or any(part.get("appended") for part in e.get("parts", ())):
                    self.fail("after-fatal", dict(self.err_sig(), what="cluster-state-changed-after-fatal-error"),
                              f"{e['api']} written after the fatal error {self.fatal_info} (t={self.fatal_t}) was applied by the cluster at t={e['t']}")

    def err_sig(self):
        """Discriminating facts of an error-related finding: the first abortable/fatal error reply the producer was
        given (class@api) and the first fatal one - independent of the program around it."""
        return {"source": self.err_sources[0] if self.err_sources else "none", "fatal": self.fatal_info or "none"}

    def _epilogue_txns(self):
        n = getattr(self, "epilogue_txn_from", None)
        return self.txns[n:] if n is not None else []

    def outcome(self):
        vis = tuple(sorted((tp, tuple(v)) for tp, v in getattr(self, "visible", {}).items()))
        return h64((vis, tuple(self.calls), tuple(sorted(getattr(self, "goffsets", {}).items())), len(self.cluster.arrivals),
                    tuple(sorted(self.start_results.items()))))


def make(params):
    return TxnScenario(params)


_BATCH_FN = None


def _run_batch(batch):
    accs = [_BATCH_FN(x) for x in batch]
    first = accs[0]
    for acc in accs[1:]:
        for name, st in acc.sets.items():
            first.sets.setdefault(name, set()).update(st)
        acc.sets = {}
    return accs


class DedupAcc(Acc):
    """Accumulator for explore_many: violations are keyed by their discriminating facts only (the scenario name the
    explorer adds is dropped from the signature, the shortest replay is kept), so one defect met in a thousand
    scenarios is one finding and cannot crowd out another."""

    def __init__(self, ctx):
        super().__init__()
        self._ctx = ctx
        self.jobs = ctx.jobs
        self.seed = ctx.seed

    def pmap(self, fn, shards, merge=True, chunksize=1, each=None):
        """Worker tasks are run in batches; inside a batch the (heavily overlapping) digest sets are united before they
        travel back, which keeps the parent process from becoming the bottleneck."""
        global _BATCH_FN
        shards = list(shards)
        size = max(1, min(64, len(shards) // (self.jobs * 8)))
        batches = [shards[i:i + size] for i in range(0, len(shards), size)]
        _BATCH_FN = fn
        out = []
        if each is not None:
            self._ctx.pmap(_run_batch, batches, merge=False, chunksize=1, each=lambda accs: [each(a) for a in accs])
            return out
        for accs in self._ctx.pmap(_run_batch, batches, merge=False, chunksize=1):
            out.extend(accs)
        return out

    def merge(self, other):
        vs, other.violations = other.violations, []
        super().merge(other)
        for v in vs:
            sig = {k: x for k, x in v["sig"].items() if k != "scenario"}
            key = json.dumps(sig, sort_keys=True, default=str)
            size = len(json.dumps(v["replay"], default=str))
            old = next((w for w in self.violations if w["key"] == key), None)
            if old is None:
                self.violations.append({"key": key, "oracle": v["oracle"], "sig": sig, "replay": v["replay"], "msg": v["msg"], "_size": size})
            elif size < old["_size"]:
                old.update(replay=v["replay"], msg=v["msg"], _size=size)

    def finish_into(self, ctx):
        vs, self.violations = self.violations, []
        ctx.merge(self)
        for v in sorted(vs, key=lambda v: v["key"]):
            v.pop("_size", None)
            ctx.count("distinct_violation_signatures")
            if not any(w["key"] == v["key"] for w in ctx.violations):
                ctx.violations.append(v)
