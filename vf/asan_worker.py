"""C10 execution engine: decode untrusted bytes with the ASan build of the compiled codec.

Run as  `python -m vf.asan_worker <status-file> <cpu-seconds>`  under `vf.build.asan_env()` (LD_PRELOAD
of the ASan runtime, PYTHONMALLOC=malloc so that every bytes object is its own malloc chunk with
red zones).  The process is a persistent *fork server*:

  parent (C10)  --stdin:  pickle [(id, bytes), ...]  -->  server
  server        --stdout: pickle [(id, outcome), ...] -->  parent       (an empty list ends the server)

For every chunk the server forks a child that decodes the inputs one by one.  Before decoding an input
the child writes its id into the shared status file (mmap) - the announcement - and re-arms a CPU-time
interval timer whose default action kills the child.  Each outcome is written to a pipe before the next
input is announced.  When the child dies (ASan report -> exit code 99, signal, timer) the server reads
the announced id and the child's stderr, records that outcome for exactly that input and forks a new
child for the inputs after it.  A crash therefore costs one fork, not an interpreter start.

`decode_input(MemoryRecords, data, validate)` is also what C10 runs in-process for the pure-Python
implementation, so both implementations go through the same sequence of calls:
MemoryRecords(data) -> has_next()/next_batch() -> [validate_crc()] -> iterate records, touching
key/value/headers/offset/timestamp/timestamp_type/checksum and the batch attributes.

Outcome (a dict):  {"nb": batches, "nr": records, "crc": [bool per validated batch],
                    "exc": None | [type name, where, message],      # Python-level exception
                    "crash": None | {"kind": "asan"|"signal"|"timeout", "where":, "via":, "detail":, "report":}}
"""
import mmap
import os
import pickle
import re
import signal
import struct
import sys
import time
import traceback

BATCH_ATTRS = ("magic", "base_offset", "attributes", "compression_type", "timestamp_type", "is_transactional",
               "is_control_batch", "last_offset_delta", "first_timestamp", "max_timestamp", "producer_id",
               "producer_epoch", "base_sequence", "next_offset", "crc")
BAD_EXC = ("SystemError", "MemoryError", "RecursionError")


def decode_input(MR, data, validate, mark=None):
    """-> (batches, records, [crc results]); exceptions propagate.  mark(text) is told the step about to run."""
    crcs = []
    nb = nr = 0
    if mark:
        mark("MemoryRecords.__init__")
    mr = MR(data)
    mr.size_in_bytes()
    limit = len(data) // 12 + 2
    while True:
        if mark:
            mark("MemoryRecords.next_batch")
        mr.has_next()
        batch = mr.next_batch()
        if batch is None:
            break
        nb += 1
        for a in BATCH_ATTRS:
            getattr(batch, a, None)
        if validate is True:
            if mark:
                mark(type(batch).__name__ + ".validate_crc")
            crcs.append(bool(batch.validate_crc()))
        if mark:
            mark(type(batch).__name__ + ".__iter__")
        it_exc = None
        try:
            for r in batch:
                r.key, r.value, r.headers, r.offset, r.timestamp, r.timestamp_type, r.checksum  # noqa: B018
                nr += 1
        except Exception as e:  # noqa: BLE001
            if validate != "after":
                raise
            it_exc = e
        if validate == "after":
            # checksum validation requested after the records were (or failed to be) iterated: same safety demands
            if mark:
                mark(type(batch).__name__ + ".validate_crc")
            batch.validate_crc()
            if it_exc is not None:
                raise it_exc
        if nb > limit:
            raise RuntimeError("next_batch() does not advance")
    return nb, nr, crcs


def where_of(exc):
    """Innermost library frame of a Python-level exception: 'Class.method' (compiled or pure Python)."""
    tb = exc.__traceback__
    name = None
    while tb is not None:
        code = tb.tb_frame.f_code
        fn = code.co_filename.replace("\\", "/")
        if "aiokafka/" in fn or "_crecords" in fn:
            name = getattr(code, "co_qualname", None) or code.co_name
        tb = tb.tb_next
    if name is None:
        return "?"
    return re.sub(r"^aiokafka\.(?:record\.)?(?:_crecords\.)?(?:\w+\.)?(?=[A-Z])", "", name)


def outcome_of(MR, data, mark=None):
    """Decode with and without validate_crc(); Python-level result only."""
    out = {"nb": 0, "nr": 0, "crc": [], "exc": None, "crash": None}
    # validate_crc() *after* iteration: always for message sets of magic 0/1 (iteration replaces their buffer with the
    # decompressed payload); for v2 batches in the thorough tier only
    legacy = len(data) > 16 and data[16] < 2
    modes = (True, False, "after") if (legacy or os.environ.get("VERIF_TIER_EFFECTIVE") == "thorough") else (True, False)
    for validate in modes:
        try:
            nb, nr, crcs = decode_input(MR, data, validate, mark)
            if validate is True:
                out["nb"], out["nr"], out["crc"] = nb, nr, crcs
        except Exception as e:  # noqa: BLE001 - classification is the caller's job
            rec = [type(e).__name__, where_of(e), str(e)[:200]]
            if out["exc"] is None or (rec[0] in BAD_EXC and out["exc"][0] not in BAD_EXC):
                out["exc"] = rec
    return out


# ---------------------------------------------------------------- ASan report parsing
_PYX = re.compile(r"__pyx_(?:f|pw|pf|gb|tp_\w+?|specialmethod_\w*?pw)_(\d.*)")


def demangle(sym):
    """__pyx_f_8aiokafka_6record_9_crecords_15default_records_18DefaultRecordBatch__read_header -> DefaultRecordBatch._read_header"""
    m = _PYX.search(sym)
    if not m:
        return sym
    s = m.group(1)
    parts = []
    while s and s[0].isdigit():
        j = 0
        while j < len(s) and s[j].isdigit():
            j += 1
        n = int(s[:j])
        comp, after = s[j:j + n], s[j + n:]
        if len(comp) < n or (after and not after.startswith("_")):
            s = s[j:]  # the digits were Cython's per-class function index, not a length
            break
        parts.append(comp)
        s = after[1:]
        if comp[:1].isupper():  # a class: what follows is [index]method
            s = re.sub(r"^\d+", "", s)
            break
    parts = [p for p in parts if p not in ("aiokafka", "record", "_crecords", "default_records", "legacy_records",
                                           "memory_records", "cutil", "hton")]
    if s:
        parts.append(s)
    return ".".join(parts) or sym


_FRAME = re.compile(r"^\s*#(\d+) 0x[0-9a-f]+\s+(?:in (\S+)\s+)?\(([^()\s]+?)\+0x([0-9a-f]+)\)")
_HELPERS = ("unpack_int", "pack_int", "decode_varint", "encode_varint", "calc_crc32", "crc32c", "crc32", "_check_bounds")
ASAN_EXTRA = (":quarantine_size_mb=4:malloc_context_size=0:symbolize=0"  # fast malloc; frames are symbolized offline
              ":halt_on_error=0:suppress_equal_pcs=0:print_legend=0")  # a report does not end the process (recover build)


class Symbolizer:
    """One persistent llvm-symbolizer per server: module+offset -> function names, innermost (inlined) first."""

    def __init__(self, path="/usr/bin/llvm-symbolizer-14"):
        self.path = path
        self.proc = None
        self.cache = {}

    def lookup(self, module, off):
        key = (module, off)
        if key in self.cache:
            return self.cache[key]
        names = []
        try:
            if self.proc is None:
                import subprocess

                env = {k: v for k, v in os.environ.items() if k not in ("LD_PRELOAD", "ASAN_OPTIONS")}
                self.proc = subprocess.Popen([self.path, "--inlines", "--functions=linkage"], stdin=subprocess.PIPE,
                                             stdout=subprocess.PIPE, text=True, env=env)
            self.proc.stdin.write(f'"{module}" 0x{off}\n')
            self.proc.stdin.flush()
            lines = []
            while True:
                line = self.proc.stdout.readline()
                if not line or not line.strip():
                    break
                lines.append(line.strip())
            names = [x for x in lines[0::2] if x != "??"]
        except OSError:
            pass
        self.cache[key] = names
        return names


def parse_asan(text, symbolizer=None):
    """-> (bug type, where, via, detail, excerpt) from an ASan report, or None.
    where = innermost method of a codec class on the stack; via = the helper / libc function that made the access."""
    m = re.search(r"ERROR: AddressSanitizer: ([\w-]+)", text)
    if not m:
        return None
    bug = m.group(1)
    access = re.search(r"^(READ|WRITE) of size (\d+)", text, re.M)
    names = []  # flat list of function names, innermost first
    started = False
    for line in text[m.start():].splitlines():
        fm = _FRAME.match(line)
        if fm:
            started = True
            sym, module, off = fm.group(2), fm.group(3), fm.group(4)
            if sym:
                names.append(sym)
            elif symbolizer is not None and len(names) < 12:
                got = symbolizer.lookup(module, off)
                names.extend(got or [os.path.basename(module)])
            else:
                names.append(os.path.basename(module))
            if len(names) > 14:
                break
        elif started and not line.strip():
            break
    where = via = None
    for sym in names:
        if "__pyx_" in sym:
            name = demangle(sym)
            if "." not in name and any(h in name for h in _HELPERS):
                via = via or name
                continue
            where = name
            break
        if via is None:
            via = sym.replace("__interceptor_", "").replace("__asan_", "")
    if where is None:
        where = demangle(names[0]) if names else "?"
    if via == where:
        via = None
    detail = bug + (f" {access.group(1)} of size {access.group(2)}" if access else "")
    excerpt = "\n".join(text[m.start():].splitlines()[:3]) + "\n    stack: " + " <- ".join(demangle(n) for n in names[:8])
    return bug, where, via, detail, excerpt


# ---------------------------------------------------------------- red zone for the byte after a bytes object's payload
class Poisoner:
    """A bytes object owns len+1 bytes (trailing NUL), so a 1-byte over-read would stay inside the malloc
    chunk.  Under ASan the NUL is poisoned while the codec runs, making the payload's end exact."""

    def __init__(self):
        import ctypes

        self.ok = False
        try:
            lib = ctypes.CDLL(None)
            self._p = getattr(lib, "__asan_poison_memory_region")
            self._u = getattr(lib, "__asan_unpoison_memory_region")
            self._p.argtypes = self._u.argtypes = [ctypes.c_void_p, ctypes.c_size_t]
            self._p.restype = self._u.restype = None
            self.off = bytes.__basicsize__ - 1
            self.ok = True
        except (OSError, AttributeError):
            pass

    def poison(self, b):
        if self.ok and type(b) is bytes and len(b) >= 2:
            self._p(id(b) + self.off + len(b), 1)
        return b

    def unpoison(self, b):
        if self.ok and type(b) is bytes and len(b) >= 2:
            self._u(id(b) + self.off + len(b), 1)


def _instrument_decompressors(poisoner):
    """The buffer a compressed batch is parsed from is the bytes returned by the codec functions; give it the same
    exact end.  The wrappers only call the real function and poison one byte."""
    import aiokafka.record._crecords.default_records as D
    import aiokafka.record._crecords.legacy_records as L

    for mod in (D, L):
        for fn in ("gzip_decode", "snappy_decode", "lz4_decode", "zstd_decode"):
            real = getattr(mod, fn, None)
            if real is None:
                continue

            def wrapper(data, _real=real):
                return poisoner.poison(_real(data))

            setattr(mod, fn, wrapper)


# ---------------------------------------------------------------- fork server
def _child(pending, wfd, status, cpu_s, MR, poisoner, errpath):
    fd = os.open(errpath, os.O_WRONLY | os.O_CREAT | os.O_TRUNC | os.O_APPEND, 0o600)
    os.dup2(fd, 2)
    os.close(fd)
    errf = open(errpath, "rb")
    seen = 0
    struct.pack_into("<q", status, 72, 0)
    signal.signal(signal.SIGVTALRM, signal.SIG_DFL)
    out = os.fdopen(wfd, "wb", buffering=0)

    def mark(text):
        status[8:72] = text.encode()[:64].ljust(64, b"\0")

    for iid, data in pending:
        struct.pack_into("<q", status, 0, iid)  # announce BEFORE decoding
        signal.setitimer(signal.ITIMER_VIRTUAL, cpu_s)
        poisoner.poison(data)
        res = outcome_of(MR, data, mark)
        poisoner.unpoison(data)
        signal.setitimer(signal.ITIMER_VIRTUAL, 0)
        size = os.fstat(2).st_size
        if size != seen:  # the sanitizer reported (recover mode: the process lives on) - attribute it to this input
            errf.seek(seen)
            res["report"] = errf.read(size - seen).decode(errors="replace")[:8000]
            seen = size
            struct.pack_into("<q", status, 72, seen)
        blob = pickle.dumps((iid, res), 4)
        out.write(struct.pack("<I", len(blob)) + blob)
    struct.pack_into("<q", status, 0, -1)
    os._exit(0)


def _read_frames(rfd):
    buf = bytearray()
    while True:
        chunk = os.read(rfd, 1 << 16)
        if not chunk:
            break
        buf += chunk
    out = []
    pos = 0
    while pos + 4 <= len(buf):
        (n,) = struct.unpack_from("<I", buf, pos)
        if pos + 4 + n > len(buf):
            break
        out.append(pickle.loads(bytes(buf[pos + 4:pos + 4 + n])))
        pos += 4 + n
    return out


class _Reports:
    """Turns raw sanitizer output into the crash record; identical stacks are parsed once."""

    def __init__(self):
        self.symbolizer = Symbolizer()
        self.cache = {}

    def crash(self, text):
        key = tuple(re.findall(r"#\d+ 0x[0-9a-f]+\s+\((\S+?\+0x[0-9a-f]+)\)", text)[:12]), text[:0]
        hit = self.cache.get(key)
        if hit is None:
            parsed = parse_asan(text, self.symbolizer)
            if parsed is None:
                return None
            bug, where, via, detail, excerpt = parsed
            hit = self.cache[key] = {"kind": "asan", "where": where, "via": via, "detail": detail, "report": excerpt}
        return dict(hit)


def serve(status_path, cpu_s):
    from vf import build

    build.install("asan")
    import aiokafka.record._crecords as C

    MR = C.MemoryRecords
    reports = _Reports()
    poisoner = Poisoner()
    _instrument_decompressors(poisoner)
    f = open(status_path, "r+b")
    status = mmap.mmap(f.fileno(), 128)
    errpath = status_path + ".stderr"
    stdin = sys.stdin.buffer
    stdout = sys.stdout.buffer
    stdout.write(pickle.dumps(("ready", poisoner.ok), 4))
    stdout.flush()
    while True:
        try:
            chunk = pickle.load(stdin)
        except EOFError:
            return
        if not chunk:
            return
        results = {}
        pending = list(chunk)
        while pending:
            struct.pack_into("<q", status, 0, -2)
            rfd, wfd = os.pipe()
            pid = os.fork()
            if pid == 0:
                os.close(rfd)
                try:
                    _child(pending, wfd, status, cpu_s, MR, poisoner, errpath)
                finally:
                    os._exit(70)
            os.close(wfd)
            for iid, res in _read_frames(rfd):
                rep = res.pop("report", None)
                if rep:
                    res["crash"] = reports.crash(rep) or {"kind": "stderr", "where": "?", "via": None, "detail": "unexpected output on stderr",
                                                          "report": rep[:1500]}
                results[iid] = res
            os.close(rfd)
            _, st = os.waitpid(pid, 0)
            if os.WIFEXITED(st) and os.WEXITSTATUS(st) == 0:
                break
            (announced,) = struct.unpack_from("<q", status, 0)
            (consumed,) = struct.unpack_from("<q", status, 72)
            try:
                with open(errpath, "rb") as ef:
                    ef.seek(consumed)
                    err = ef.read().decode(errors="replace")
            except OSError:
                err = ""
            idx = next((i for i, (iid, _) in enumerate(pending) if iid == announced), None)
            if idx is None:  # died outside any input: a harness problem
                raise RuntimeError(f"child died (status {st}) without an announced input; stderr:\n{err[-2000:]}")
            phase = bytes(status[8:72]).rstrip(b"\0").decode(errors="replace")
            last = err[err.find("ERROR: AddressSanitizer"):] if "ERROR: AddressSanitizer" in err else ""
            crash = reports.crash(last) if last else None
            if crash is None:
                crash = {"kind": "signal", "where": phase, "via": None, "detail": "", "report": err[-1500:]}
                if os.WIFSIGNALED(st) and os.WTERMSIG(st) in (signal.SIGVTALRM, signal.SIGXCPU, signal.SIGALRM):
                    crash.update(kind="timeout", detail=f"no result after {cpu_s}s of CPU time")
                elif os.WIFSIGNALED(st):
                    crash["detail"] = signal.Signals(os.WTERMSIG(st)).name
                else:
                    crash["detail"] = f"exit status {os.WEXITSTATUS(st)}"
            results[announced] = {"nb": 0, "nr": 0, "crc": [], "exc": None, "crash": crash}
            pending = pending[idx + 1:]
        stdout.write(pickle.dumps([(iid, results.get(iid)) for iid, _ in chunk], 4))
        stdout.flush()


if __name__ == "__main__":
    try:
        serve(sys.argv[1], float(sys.argv[2]))
    except BaseException:  # noqa: BLE001
        traceback.print_exc()
        sys.exit(3)
