"""E5 - bounded enumerator and independent oracles for the partition assignors (C14, C15).

Input space (as the properties bound it): a universe of T <= 3 topics t0..t{T-1}; each topic is in one
of six states: absent from cluster metadata (None) or present with 0..4 partitions; m <= 4 members;
each member subscribes to one of the 2^T-1 non-empty subsets of the universe.  A member may therefore
subscribe to a topic without metadata, and the cluster may carry topics nobody subscribes to.

Nothing is quotiented: assignors sort member ids and topic names, so neither renaming is a symmetry.

Realism: the cluster is a real ClusterMetadata filled through update_metadata(MetadataResponse_v1);
member metadata goes metadata() -> encode -> ConsumerProtocolMemberMetadata.decode (what the leader
sees); results go encode -> ConsumerProtocolMemberAssignment.decode -> on_assignment (what a member
sees).  Every sticky member is its own fresh subclass of StickyPartitionAssignor (the assignor keeps
its state in class attributes; in a real group every member is a separate process).

The oracles below are written from the property text only; they never call library helpers.
"""
import functools
import itertools
import logging
import signal

STATES = (None, 0, 1, 2, 3, 4)
TOPICS = ("t0", "t1", "t2")
ASSIGN_TIMEOUT_S = 10
MAX_HANGS_PER_SHARD = 2


class AssignTimeout(Exception):
    pass


def quiet_logs():
    logging.getLogger("aiokafka").setLevel(logging.CRITICAL + 1)


# ----------------------------------------------------------------------------- enumeration

@functools.lru_cache(maxsize=None)
def layouts(T):
    """All |STATES|^T state vectors, fewest partitions first (simplest-first)."""
    out = list(itertools.product(STATES, repeat=T))
    out.sort(key=lambda s: (sum(x or 0 for x in s), sum(x is not None for x in s), [(-1 if x is None else x) for x in s]))
    return out


def sub_vectors(T, m):
    """All (2^T-1)^m vectors of non-empty subscription bitmasks, in lexicographic order."""
    return itertools.product(range(1, 1 << T), repeat=m)


def n_cases(T, m):
    return len(STATES) ** T * ((1 << T) - 1) ** m


def topics_of(mask):
    return tuple(TOPICS[i] for i in range(3) if mask >> i & 1)


def case_code(T, states, subs):
    """Injective integer code of an input (fixed-width mixed radix; used as the 'distinct' digest)."""
    c = T
    for i in range(3):
        c = c * 8 + (7 if i >= len(states) else 0 if states[i] is None else states[i] + 1)
    c = c * 8 + len(subs)
    for i in range(6):
        c = c * 8 + (subs[i] if i < len(subs) else 0)
    return c


def member_ids(m):
    """Old members m1000, m2000, ...: gaps leave room for new members at every sort position."""
    return [f"m{(i + 1) * 1000:04d}" for i in range(m)]


def _num(mid):
    return int(mid[1:])


def new_member_placements(existing, k):
    """Every way of giving k new member ids sort positions relative to `existing` (a multiset of gaps)."""
    nums = sorted(_num(x) for x in existing)
    gaps = list(range(len(nums) + 1))
    out = []
    for combo in itertools.combinations_with_replacement(gaps, k):
        names = []
        for g in set(combo):
            lo = nums[g - 1] if g > 0 else 0
            hi = nums[g] if g < len(nums) else nums[-1] + 500 * (combo.count(g) + 1)
            c = combo.count(g)
            for j in range(1, c + 1):
                v = lo + (hi - lo) * j // (c + 1)
                assert lo < v < hi, (existing, combo)
                names.append(f"m{v:04d}")
        assert len(set(names)) == k and not set(names) & set(existing)
        out.append(tuple(sorted(names)))
    return out


def shard_list(max_m, max_t, min_m=1, min_t=1, skip=None):
    """Shards (T, m, layout_index): one layout with all its subscription vectors, simplest first.
    `skip(T, m)` -> True leaves a (T, m) block out."""
    out = []
    for T in range(min_t, max_t + 1):
        nl = len(STATES) ** T
        for m in range(min_m, max_m + 1):
            if skip and skip(T, m):
                continue
            for li in range(nl):
                out.append((T, m, li))
    out.sort(key=lambda s: (n_cases(s[0], s[1]), s[0], s[1], s[2]))
    return out


# ----------------------------------------------------------------------------- real objects

_CLUSTERS = {}


def cluster_for(states):
    """Real ClusterMetadata for a state vector; absent topics are reported by the 'broker' with
    UNKNOWN_TOPIC_OR_PARTITION exactly as a MetadataResponse does."""
    c = _CLUSTERS.get(states)
    if c is not None:
        return c
    from aiokafka.cluster import ClusterMetadata
    from aiokafka.protocol.metadata import MetadataResponse_v1

    topics = []
    for i, st in enumerate(states):
        if st is None:
            topics.append((3, TOPICS[i], False, []))
        else:
            topics.append((0, TOPICS[i], False, [(0, p, p % 2, [0, 1], [0, 1]) for p in range(st)]))
    resp = MetadataResponse_v1([(0, "h0", 9092, None), (1, "h1", 9092, None)], 0, topics)
    resp = MetadataResponse_v1.decode(resp.encode())  # as it arrives from the wire
    c = ClusterMetadata(metadata_max_age_ms=10 ** 9)
    c.update_metadata(resp)
    _CLUSTERS[states] = c
    return c


def partitions_spec(states):
    """Independent description of the layout: {topic: set(partition ids)} for topics WITH metadata."""
    return {TOPICS[i]: set(range(st)) for i, st in enumerate(states) if st is not None}


class _Alarm:
    def __enter__(self):
        def _h(signum, frame):
            raise AssignTimeout()

        self.old = signal.signal(signal.SIGALRM, _h)
        signal.setitimer(signal.ITIMER_REAL, ASSIGN_TIMEOUT_S)

    def __exit__(self, *a):
        signal.setitimer(signal.ITIMER_REAL, 0)
        signal.signal(signal.SIGALRM, self.old)
        return False


def call_assign(assignor_cls, cluster, meta_bytes):
    """Leader side: decode every member's metadata bytes, run the real assign(), return
    ({member: [(topic, [partitions])...]} as each member decodes it, {member: encoded bytes}).
    Raises whatever assign() raises; AssignTimeout if it does not return."""
    from aiokafka.coordinator.protocol import ConsumerProtocolMemberAssignment, ConsumerProtocolMemberMetadata

    members = {mid: ConsumerProtocolMemberMetadata.decode(b) for mid, b in meta_bytes.items()}
    with _Alarm():
        res = assignor_cls.assign(cluster, members)
    seen = {}
    wire = {}
    for mid, a in res.items():
        b = a if isinstance(a, bytes) else a.encode()
        wire[mid] = b
        d = ConsumerProtocolMemberAssignment.decode(b)
        seen[mid] = [(t, list(ps)) for t, ps in d.assignment]
    return seen, wire


_STICKY = None


def sticky_base():
    global _STICKY
    if _STICKY is None:
        from aiokafka.coordinator.assignors.sticky.sticky_assignor import StickyPartitionAssignor

        _STICKY = StickyPartitionAssignor
    return _STICKY


class StickyMember:
    """One group member running the sticky assignor in 'its own process': a private subclass.

    history: list of (generation, assignment_bytes) the member received so far (replayed on a fresh
    subclass so that branches never share state).  gen_mode 'coordinator' does what aiokafka's
    GroupCoordinator._on_join_complete does - it calls on_assignment() only, never
    on_generation_assignment(), so the generation shipped in user data stays -1.  gen_mode 'set'
    additionally calls on_generation_assignment(generation) first (what kafka-python's coordinator does)."""

    def __init__(self, mid, topics, history=(), gen_mode="coordinator"):
        from aiokafka.coordinator.protocol import ConsumerProtocolMemberAssignment

        self.mid = mid
        self.topics = tuple(topics)
        self.cls = type("Sticky_" + mid, (sticky_base(),), {})
        for generation, ab in history:
            if gen_mode == "set":
                self.cls.on_generation_assignment(generation)
            self.cls.on_assignment(ConsumerProtocolMemberAssignment.decode(ab))

    def join_metadata(self):
        md = self.cls.metadata(self.topics)
        return md if isinstance(md, bytes) else md.encode()


def sticky_round(cluster, subs, histories, gen_mode="coordinator"):
    """One rebalance: subs {member: topics tuple}, histories {member: [(gen, assignment bytes)...]}.
    The leader is the first member in sorted order.  Returns (seen, wire)."""
    metas = {}
    leader = None
    for mid in subs:  # insertion order = JoinGroup member order
        mem = StickyMember(mid, subs[mid], histories.get(mid, ()), gen_mode)
        if leader is None:
            leader = mem
        metas[mid] = mem.join_metadata()
    return call_assign(leader.cls, cluster, metas)


def plain_round(assignor_cls, cluster, subs):
    metas = {}
    for mid, topics in subs.items():
        md = assignor_cls.metadata(topics)
        metas[mid] = md if isinstance(md, bytes) else md.encode()
    return call_assign(assignor_cls, cluster, metas)


# ----------------------------------------------------------------------------- oracles

def owners_map(result):
    own = {}
    for mid, tl in result.items():
        for t, ps in tl:
            for p in ps:
                own.setdefault((t, p), []).append(mid)
    return own


def loads(result):
    return {mid: sum(len(ps) for _, ps in tl) for mid, tl in result.items()}


def check_valid(spec, subs, result):
    """Oracle 1.  spec {topic: set(partitions)} (topics with metadata), subs {member: topics},
    result {member: [(topic, [partitions])]}.  Returns list of (kind, message); empty = valid."""
    bad = []
    if set(result) != set(subs):
        missing = sorted(set(subs) - set(result))
        extra = sorted(set(result) - set(subs))
        if missing:
            bad.append(("member_missing_from_result", f"members {missing} have no entry in the result"))
        if extra:
            bad.append(("unknown_member_in_result", f"result names non-members {extra}"))
    own = owners_map(result)
    for (t, p), ms in sorted(own.items()):
        if t not in spec:
            bad.append(("topic_without_metadata_assigned", f"{t}[{p}] assigned to {ms} but {t} has no metadata"))
            continue
        if p not in spec[t]:
            bad.append(("nonexistent_partition_assigned", f"{t}[{p}] assigned to {ms} but {t} has partitions {sorted(spec[t])}"))
            continue
        for mid in ms:
            if mid in subs and t not in subs[mid]:
                bad.append(("owner_not_subscribed", f"{t}[{p}] assigned to {mid} which subscribes only to {sorted(subs[mid])}"))
        if len(ms) > 1:
            bad.append(("multiple_owners", f"{t}[{p}] assigned {len(ms)} times: {ms}"))
    subscribed = set()
    for ts in subs.values():
        subscribed.update(ts)
    for t in sorted(subscribed):
        for p in sorted(spec.get(t, ())):
            if (t, p) not in own:
                bad.append(("partition_unassigned", f"{t}[{p}] is subscribed and has metadata but has no owner"))
    return bad


def check_total_balance(result):
    """Round-robin with identical subscriptions: loads within one of each other."""
    ld = loads(result)
    if ld and max(ld.values()) - min(ld.values()) > 1:
        return [("loads_differ_by_more_than_one", f"member loads {ld}")]
    return []


def check_range_balance(spec, subs, result):
    """Range: within each topic, loads of the members subscribed to it are within one of each other."""
    bad = []
    for t in sorted(spec):
        who = [mid for mid in subs if t in subs[mid]]
        if not who:
            continue
        per = {mid: 0 for mid in who}
        for mid in who:
            for tt, ps in result.get(mid, ()):
                if tt == t:
                    per[mid] += len(ps)
        if max(per.values()) - min(per.values()) > 1:
            bad.append(("topic_loads_differ_by_more_than_one", f"topic {t}: per-member counts {per}"))
    return bad


def check_kip54_balance(subs, result):
    """Sticky: no member A could take a partition it subscribes to from a member B holding >= 2 more."""
    ld = loads(result)
    for mid in subs:
        ld.setdefault(mid, 0)
    for (t, p), ms in sorted(owners_map(result).items()):
        for b in ms:
            for a in sorted(subs):
                if a != b and t in subs[a] and ld[b] >= ld[a] + 2:
                    return [("kip54_unbalanced", f"{a} (load {ld[a]}) subscribes to {t} yet {t}[{p}] stays with {b} (load {ld[b]}); loads {ld}")]
    return []


def flat(result):
    return {mid: sorted((t, p) for t, ps in tl for p in ps) for mid, tl in result.items()}


def moved_between(prev, cur, stay):
    """Partitions that `prev` gave to a member of `stay` and `cur` gives to a DIFFERENT member of `stay`."""
    cur_owner = {}
    for mid, tps in flat(cur).items():
        for tp in tps:
            cur_owner.setdefault(tp, mid)
    out = []
    for mid, tps in flat(prev).items():
        if mid not in stay:
            continue
        for tp in tps:
            o = cur_owner.get(tp)
            if o is not None and o != mid and o in stay:
                out.append((tp, mid, o))
    return out


# ----------------------------------------------------------------------------- smallest-counterexample bookkeeping

class MinViolations:
    """Keeps, per signature, the violation with the smallest input; emitted at the end of the run."""

    def __init__(self):
        self.best = {}
        self.n = 0
        self.per = {}  # signature -> number of violating cases (all of them, not only the kept smallest)

    def add(self, size, oracle, sig, replay, msg):
        self.n += 1
        key = (oracle, tuple(sorted(sig.items())))
        self.per[key] = self.per.get(key, 0) + 1
        cur = self.best.get(key)
        if cur is None or size < cur[0]:
            self.best[key] = (size, oracle, dict(sig), replay, msg)

    def merge(self, other):
        self.n += other.n
        for key, c in other.per.items():
            self.per[key] = self.per.get(key, 0) + c
        for key, v in other.best.items():
            cur = self.best.get(key)
            if cur is None or v[0] < cur[0]:
                self.best[key] = v

    def emit(self, ctx):
        for v in sorted(self.best.values(), key=lambda v: (v[0], v[1], sorted(v[2].items()))):
            ctx.violation(v[1], v[2], v[3], v[4])
        if self.n:
            ctx.counts["violating_cases"] = self.n
            ctx.note("violating_cases_by_sig", [{"oracle": k[0], "sig": dict(k[1]), "cases": c}
                                                for k, c in sorted(self.per.items(), key=lambda kv: -kv[1])])


def input_size(states, subs):
    return (len(subs), len(states), sum(x or 0 for x in states), sum(bin(x).count("1") for x in subs),
            tuple(-1 if x is None else x for x in states), tuple(subs))  # last two: deterministic tie-break
