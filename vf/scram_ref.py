"""Independent SCRAM server (RFC 5802, RFC 7677; SASLprep RFC 4013).

Written from the RFC text, not from any client implementation.  It only uses
the hash/HMAC primitives of the standard library.  Used by vf/props/C18.py as
the party that *verifies* what the aiokafka client sends.

  SaltedPassword  := Hi(Normalize(password), salt, i)
  ClientKey       := HMAC(SaltedPassword, "Client Key")
  StoredKey       := H(ClientKey)
  AuthMessage     := client-first-message-bare + "," + server-first-message + ","
                     + client-final-message-without-proof
  ClientSignature := HMAC(StoredKey, AuthMessage)
  ClientProof     := ClientKey XOR ClientSignature
  ServerKey       := HMAC(SaltedPassword, "Server Key")
  ServerSignature := HMAC(ServerKey, AuthMessage)
"""
import base64
import binascii
import functools
import hashlib
import hmac
import re
import stringprep
import unicodedata

HASHES = {"SCRAM-SHA-1": "sha1", "SCRAM-SHA-256": "sha256", "SCRAM-SHA-512": "sha512"}

B64_ALPHABET = frozenset("ABCDEFGHIJKLMNOPQRSTUVWXYZabcdefghijklmnopqrstuvwxyz0123456789+/")
# base64 = *(4base64-char) [base64-3 / base64-4]   (RFC 5802 section 7)
_B64_RE = re.compile(r"^(?:[A-Za-z0-9+/]{4})*(?:[A-Za-z0-9+/]{2}==|[A-Za-z0-9+/]{3}=)?$")
# printable = %x21-2B / %x2D-7E
_PRINTABLE_RE = re.compile(r"^[\x21-\x2b\x2d-\x7e]+$")
_POSINT_RE = re.compile(r"^[1-9][0-9]*$")


class ScramError(Exception):
    """The server refuses the exchange; .code is an RFC 5802 server-error-value."""

    def __init__(self, code, detail):
        super().__init__(f"{code}: {detail}")
        self.code = code
        self.detail = detail


# ---------------------------------------------------------------- SASLprep (RFC 4013)
@functools.lru_cache(maxsize=4096)
def saslprep(s):
    """RFC 4013 profile of stringprep for stored strings (unassigned code points prohibited)."""
    out = []
    for ch in s:
        if stringprep.in_table_c12(ch):  # non-ASCII space -> SPACE
            out.append(" ")
        elif stringprep.in_table_b1(ch):  # commonly mapped to nothing
            continue
        else:
            out.append(ch)
    s = unicodedata.normalize("NFKC", "".join(out))
    for ch in s:
        if (stringprep.in_table_c12(ch) or stringprep.in_table_c21(ch) or stringprep.in_table_c22(ch)
                or stringprep.in_table_c3(ch) or stringprep.in_table_c4(ch) or stringprep.in_table_c5(ch)
                or stringprep.in_table_c6(ch) or stringprep.in_table_c7(ch) or stringprep.in_table_c8(ch)
                or stringprep.in_table_c9(ch) or stringprep.in_table_a1(ch)):
            raise ValueError(f"SASLprep: prohibited code point U+{ord(ch):04X}")
    if any(stringprep.in_table_d1(ch) for ch in s):  # bidi rule (RFC 3454 section 6)
        if any(stringprep.in_table_d2(ch) for ch in s):
            raise ValueError("SASLprep: RandALCat and LCat mixed")
        if not (stringprep.in_table_d1(s[0]) and stringprep.in_table_d1(s[-1])):
            raise ValueError("SASLprep: RandALCat string must start and end with RandALCat")
    return s


# ---------------------------------------------------------------- primitives
def H(hashname, data):
    return hashlib.new(hashname, data).digest()


def HMAC(hashname, key, msg):
    return hmac.new(key, msg, hashname).digest()


def Hi_loop(hashname, password, salt, i):
    """Hi() exactly as written in RFC 5802 section 2.2."""
    u = HMAC(hashname, password, salt + b"\x00\x00\x00\x01")
    acc = int.from_bytes(u, "big")
    for _ in range(i - 1):
        u = HMAC(hashname, password, u)
        acc ^= int.from_bytes(u, "big")
    return acc.to_bytes(hashlib.new(hashname).digest_size, "big")


def Hi(hashname, password, salt, i):
    """Hi() == PBKDF2 with dkLen = output length of H (RFC 5802 section 2.2).  The explicit loop is
    used for small counts, the C implementation for large ones; selftest() checks they agree."""
    if i < 1:
        raise ValueError("iteration count must be >= 1")
    if i <= 64:
        return Hi_loop(hashname, password, salt, i)
    return hashlib.pbkdf2_hmac(hashname, password, salt, i)


@functools.lru_cache(maxsize=8192)
def salted_password(mechanism, password, salt, iterations):
    """SaltedPassword := Hi(Normalize(password), salt, i)"""
    return Hi(HASHES[mechanism], saslprep(password).encode("utf-8"), salt, iterations)


def server_key(mechanism, password, salt, iterations):
    return HMAC(HASHES[mechanism], salted_password(mechanism, password, salt, iterations), b"Server Key")


def xor(a, b):
    if len(a) != len(b):
        raise ValueError("xor of unequal lengths")
    return bytes(x ^ y for x, y in zip(a, b))


def b64(data):
    return base64.b64encode(data).decode("ascii")


def b64_strict(text):
    """Decode text that must match the RFC 5802 base64 production; None if it does not."""
    if not _B64_RE.match(text):
        return None
    try:
        return base64.b64decode(text.encode("ascii"), validate=True)
    except (binascii.Error, ValueError):
        return None


def b64_tolerant(text):
    """Most tolerant reading of a base64 value: foreign characters dropped, padding repaired,
    dangling bits ignored.  Used only to decide that a tampered text still *denotes* the same
    octets (then the check demands nothing)."""
    chars = [c for c in text if c in B64_ALPHABET]
    while len(chars) % 4 == 1:
        chars.pop()
    s = "".join(chars)
    s += "=" * (-len(s) % 4)
    try:
        return base64.b64decode(s.encode("ascii"))
    except (binascii.Error, ValueError):
        return None


class Credentials:
    """What a SCRAM server stores for one user (RFC 5802 section 3): salt, i, StoredKey, ServerKey."""

    __slots__ = ("hashname", "salt", "iterations", "stored_key", "server_key")

    def __init__(self, mechanism, password, salt, iterations):
        hn = HASHES[mechanism]
        salted = salted_password(mechanism, password, salt, iterations)
        client_key = HMAC(hn, salted, b"Client Key")
        self.hashname = hn
        self.salt = salt
        self.iterations = iterations
        self.stored_key = H(hn, client_key)
        self.server_key = HMAC(hn, salted, b"Server Key")


def unescape_saslname(value):
    """saslname = 1*(value-safe-char / "=2C" / "=3D")"""
    if value == "":
        raise ScramError("invalid-username-encoding", "empty saslname")
    out = []
    i = 0
    while i < len(value):
        c = value[i]
        if c == "=":
            esc = value[i:i + 3]
            if esc == "=2C":
                out.append(",")
            elif esc == "=3D":
                out.append("=")
            else:
                raise ScramError("invalid-username-encoding", f"'=' not followed by 2C or 3D in {value!r}")
            i += 3
            continue
        if c == "," or c == "\x00":
            raise ScramError("invalid-username-encoding", f"forbidden character in saslname {value!r}")
        out.append(c)
        i += 1
    return "".join(out)


def _attr(pair, what):
    """attr-val = ALPHA "=" value ; value = 1*value-char (no NUL, no ',')."""
    if len(pair) < 2 or pair[1] != "=" or not pair[0].isascii() or not pair[0].isalpha():
        raise ScramError("invalid-encoding", f"{what}: {pair!r} is not attr=value")
    if "\x00" in pair:
        raise ScramError("invalid-encoding", f"{what}: NUL in value")
    return pair[0], pair[2:]


class ScramServer:
    """One authentication exchange, server side, without channel binding support."""

    def __init__(self, mechanism, users, nonce_suffix):
        self.mechanism = mechanism
        self.hashname = HASHES[mechanism]
        self.users = users  # {SASLprep(username): Credentials}
        self.nonce_suffix = nonce_suffix
        self.state = "start"
        self.gs2_header = None
        self.client_first_bare = None
        self.client_nonce = None
        self.username = None
        self.cred = None
        self.server_first = None
        self.nonce = None
        self.auth_message = None
        self.server_signature = None

    # client-first-message = gs2-header client-first-message-bare
    def client_first(self, data):
        if self.state != "start":
            raise ScramError("other-error", "client-first out of order")
        self.state = "failed"
        try:
            msg = data.decode("utf-8")
        except UnicodeDecodeError as e:
            raise ScramError("invalid-encoding", f"client-first is not UTF-8: {e}") from None
        # gs2-header = gs2-cbind-flag "," [authzid] ","
        parts = msg.split(",", 2)
        if len(parts) < 3:
            raise ScramError("invalid-encoding", "client-first has no gs2 header")
        flag, authzid, bare = parts
        if flag.startswith("p="):
            raise ScramError("channel-binding-not-supported", flag)
        if flag not in ("n", "y"):
            raise ScramError("invalid-encoding", f"gs2-cbind-flag {flag!r}")
        if authzid:
            if not authzid.startswith("a="):
                raise ScramError("invalid-encoding", f"authzid {authzid!r}")
            unescape_saslname(authzid[2:])
        self.gs2_header = f"{flag},{authzid},"
        # client-first-message-bare = [reserved-mext ","] username "," nonce ["," extensions]
        fields = bare.split(",")
        if fields and fields[0].startswith("m="):
            raise ScramError("extensions-not-supported", fields[0])
        if len(fields) < 2:
            raise ScramError("invalid-encoding", "client-first-message-bare needs n= and r=")
        if not fields[0].startswith("n="):
            raise ScramError("invalid-encoding", f"first attribute must be n=, got {fields[0]!r}")
        if not fields[1].startswith("r="):
            raise ScramError("invalid-encoding", f"second attribute must be r=, got {fields[1]!r}")
        for ext in fields[2:]:
            _attr(ext, "client-first extension")
        username = unescape_saslname(fields[0][2:])
        cnonce = fields[1][2:]
        if not _PRINTABLE_RE.match(cnonce):
            raise ScramError("invalid-encoding", f"client nonce {cnonce!r} is not 1*printable")
        try:
            prepared = saslprep(username)
        except ValueError as e:
            raise ScramError("invalid-username-encoding", str(e)) from None
        cred = self.users.get(prepared)
        if cred is None:
            raise ScramError("unknown-user", repr(username))
        self.username = username
        self.client_first_bare = bare
        self.client_nonce = cnonce
        self.cred = cred
        self.nonce = cnonce + self.nonce_suffix
        # server-first-message = [reserved-mext ","] nonce "," salt "," iteration-count
        self.server_first = f"r={self.nonce},s={b64(cred.salt)},i={cred.iterations}"
        self.state = "first-sent"
        return self.server_first.encode("utf-8")

    # client-final-message = channel-binding "," nonce ["," extensions] "," proof
    def client_final(self, data):
        if self.state != "first-sent":
            raise ScramError("other-error", "client-final out of order")
        self.state = "failed"
        try:
            msg = data.decode("utf-8")
        except UnicodeDecodeError as e:
            raise ScramError("invalid-encoding", f"client-final is not UTF-8: {e}") from None
        fields = msg.split(",")
        if len(fields) < 3:
            raise ScramError("invalid-encoding", "client-final needs c=, r= and p=")
        if not fields[0].startswith("c="):
            raise ScramError("invalid-encoding", f"first attribute must be c=, got {fields[0]!r}")
        if not fields[1].startswith("r="):
            raise ScramError("invalid-encoding", f"second attribute must be r=, got {fields[1]!r}")
        if not fields[-1].startswith("p="):
            raise ScramError("invalid-encoding", f"last attribute must be p=, got {fields[-1]!r}")
        for ext in fields[2:-1]:
            name, _ = _attr(ext, "client-final extension")
            if name == "m":
                raise ScramError("extensions-not-supported", ext)
        cbind = b64_strict(fields[0][2:])
        if cbind is None:
            raise ScramError("invalid-encoding", f"c= is not base64: {fields[0]!r}")
        if cbind != self.gs2_header.encode("utf-8"):
            raise ScramError("channel-bindings-dont-match", f"c= decodes to {cbind!r}, gs2 header was {self.gs2_header!r}")
        if fields[1][2:] != self.nonce:
            raise ScramError("other-error", f"nonce {fields[1][2:]!r} is not the one issued {self.nonce!r}")
        proof = b64_strict(fields[-1][2:])
        if proof is None:
            raise ScramError("invalid-encoding", f"p= is not base64: {fields[-1]!r}")
        without_proof = msg[: len(msg) - len(fields[-1]) - 1]
        self.auth_message = f"{self.client_first_bare},{self.server_first},{without_proof}".encode("utf-8")
        if len(proof) != len(self.cred.stored_key):
            raise ScramError("invalid-proof", f"proof has {len(proof)} octets")
        client_signature = HMAC(self.hashname, self.cred.stored_key, self.auth_message)
        client_key = xor(proof, client_signature)
        if not hmac.compare_digest(H(self.hashname, client_key), self.cred.stored_key):
            raise ScramError("invalid-proof", "H(ClientProof XOR ClientSignature) != StoredKey")
        self.server_signature = HMAC(self.hashname, self.cred.server_key, self.auth_message)
        self.state = "authenticated"
        return ("v=" + b64(self.server_signature)).encode("utf-8")


# ---------------------------------------------------------------- what a correct client may accept
def parse_server_first(text):
    """Strict parse of server-first-message; returns (nonce, salt, iterations) or None."""
    fields = text.split(",")
    if len(fields) < 3:
        return None
    if not (fields[0].startswith("r=") and fields[1].startswith("s=") and fields[2].startswith("i=")):
        return None
    nonce = fields[0][2:]
    if not _PRINTABLE_RE.match(nonce):
        return None
    salt = b64_strict(fields[1][2:])
    if salt is None or not _POSINT_RE.match(fields[2][2:]):
        return None
    return nonce, salt, int(fields[2][2:])


def expected_server_signature(mechanism, password, client_first, server_first, client_final):
    """ServerSignature a server knowing `password` owes for exactly these three messages
    (salt and iteration count as announced in server_first), or None if server_first is malformed."""
    hn = HASHES[mechanism]
    p = parse_server_first(server_first)
    if p is None:
        return None
    _, salt, iterations = p
    bare = client_first.split(",", 2)[2]
    without_proof = client_final[: client_final.rindex(",p=")]
    auth_message = f"{bare},{server_first},{without_proof}".encode("utf-8")
    return HMAC(hn, server_key(mechanism, password, salt, iterations), auth_message)


# ---------------------------------------------------------------- self test (known answers)
def selftest():
    """Known-answer tests of this reference: RFC 5802 section 5 (SHA-1), RFC 7677 section 3 (SHA-256),
    RFC 6070 PBKDF2 vectors, loop-vs-C Hi().  Returns a list of failures (empty = fine)."""
    bad = []
    for pw, salt, c, want in ((b"password", b"salt", 1, "0c60c80f961f0e71f3a9b524af6012062fe037a6"),
                              (b"password", b"salt", 2, "ea6c014dc72d6f8ccd1ed92ace1d41f0d8de8957"),
                              (b"password", b"salt", 4096, "4b007901b765489abead49d926f721d065a429c1")):
        if Hi("sha1", pw, salt, c).hex() != want or Hi_loop("sha1", pw, salt, c).hex() != want:
            bad.append(f"PBKDF2-HMAC-SHA1 vector c={c}")
    for hn in ("sha256", "sha512"):
        for i in (1, 2, 3, 64, 65, 100):
            if Hi_loop(hn, "pässword".encode(), b"\x80\xff\x00salt", i) != hashlib.pbkdf2_hmac(
                    hn, "pässword".encode(), b"\x80\xff\x00salt", i):
                bad.append(f"Hi loop != pbkdf2 for {hn} i={i}")
    vectors = (
        ("SCRAM-SHA-1", "user", "pencil", "fyko+d2lbbFgONRv9qkxdawL", "3rfcNHYJY1ZVvWVs7j", "QSXCR+Q6sek8bf92", 4096,
         "n,,n=user,r=fyko+d2lbbFgONRv9qkxdawL",
         "r=fyko+d2lbbFgONRv9qkxdawL3rfcNHYJY1ZVvWVs7j,s=QSXCR+Q6sek8bf92,i=4096",
         "c=biws,r=fyko+d2lbbFgONRv9qkxdawL3rfcNHYJY1ZVvWVs7j,p=v0X8v3Bz2T0CJGbJQyF0X+HI4Ts=",
         "v=rmF9pqV8S7suAoZWja4dJRkFsKQ="),
        ("SCRAM-SHA-256", "user", "pencil", "rOprNGfwEbeRWgbNEkqO", "%hvYDpWUa2RaTCAfuxFIlj)hNlF$k0",
         "W22ZaJ0SNY7soEsUEjb6gQ==", 4096,
         "n,,n=user,r=rOprNGfwEbeRWgbNEkqO",
         "r=rOprNGfwEbeRWgbNEkqO%hvYDpWUa2RaTCAfuxFIlj)hNlF$k0,s=W22ZaJ0SNY7soEsUEjb6gQ==,i=4096",
         "c=biws,r=rOprNGfwEbeRWgbNEkqO%hvYDpWUa2RaTCAfuxFIlj)hNlF$k0,p=dHzbZapWIk4jUhN+Ute9ytag9zjfMHgsqmmiz7AndVQ=",
         "v=6rriTRBi23WpRR/wtup+mMhUZUn/dB5nLTJRsjl95G4="),
    )
    for mech, user, pw, cnonce, suffix, salt64, it, c1, s1, c2, s2 in vectors:
        srv = ScramServer(mech, {user: Credentials(mech, pw, base64.b64decode(salt64), it)}, suffix)
        try:
            got1 = srv.client_first(c1.encode()).decode()
            got2 = srv.client_final(c2.encode()).decode()
        except ScramError as e:
            bad.append(f"{mech} RFC exchange refused: {e}")
            continue
        if got1 != s1 or got2 != s2:
            bad.append(f"{mech} RFC exchange: server-first {got1!r} / server-final {got2!r}")
        if expected_server_signature(mech, pw, c1, s1, c2) != base64.b64decode(s2[2:]):
            bad.append(f"{mech} expected_server_signature")
        # a proof with one flipped bit must be refused
        raw = bytearray(base64.b64decode(c2[c2.rindex(",p=") + 3:]))
        raw[0] ^= 1
        srv = ScramServer(mech, {user: Credentials(mech, pw, base64.b64decode(salt64), it)}, suffix)
        srv.client_first(c1.encode())
        try:
            srv.client_final((c2[: c2.rindex(",p=") + 3] + b64(bytes(raw))).encode())
            bad.append(f"{mech} flipped proof accepted")
        except ScramError as e:
            if e.code != "invalid-proof":
                bad.append(f"{mech} flipped proof: {e}")
    if unescape_saslname("a=2Cb=3Dc") != "a,b=c":
        bad.append("unescape")
    for wrong in ("a=2cb", "a=", "=", "a=3", ""):
        try:
            unescape_saslname(wrong)
            bad.append(f"unescape accepted {wrong!r}")
        except ScramError:
            pass
    if saslprep("I\u00adX") != "IX" or saslprep("\u2168") != "IX" or saslprep("a\u00a0b") != "a b":
        bad.append("saslprep examples (RFC 4013 section 3)")
    for wrong in ("\u0007", "\u06271"):
        try:
            saslprep(wrong)
            bad.append(f"saslprep accepted {wrong!r}")
        except ValueError:
            pass
    return bad
