"""Consumer scenarios (C03, C08, C13): a real AIOKafkaConsumer with manual assignment against the simulated cluster.

params (all JSON-able):
  logs: {"0": spec, "1": spec}    partition -> log spec: {"shapes": [...]} (vf.conslogs shapes, C03) or
                                   {"txn": [entries...], "removed": [entry indexes]} (transactional log, C08/C13);
                                   optional "log_start": n (records below are deleted: retention)
  group: None | "g"                group_id (manual assignment either way; with a group the committed offsets come
                                   from OffsetFetch, without one they are "unknown" locally)
  committed: {"0": offset}         offsets stored in the group coordinator before the run
  policy: earliest | latest | none   isolation: read_uncommitted | read_committed
  versions: {api: [lo, hi]}        narrowing of the advertised version ranges
  baseline: net | app
  program: [[call, ...], ...]      one list of gated calls per application task; call =
        ["getone"] | ["getone", [parts]] | ["getmany", {"t": ms, "max": n, "parts": [..]}] | ["seek", p, o] |
        ["seekpos", p, o] (seek immediately followed by position) | ["pause", p] | ["resume", p] | ["position", p]
  drain: bool                      after the program a task keeps polling getmany() until everything visible was
                                   returned (bounded liveness) or the horizon passes
  cuts: None | int | [ints]        batches per partition per fetch response: a constant, or the per-response plan
                                   (response i of the run carries cuts[i] batches, later ones everything)
  cut_choice: bool                 offer "this response carries j batches" as an explorer data choice (budget x)
  faults / fault_apis / errs       fault alphabet (Cluster.fault_alts);  leader_move: [partitions] (budget f)
  inject_seek: [p, o]              a seek(p, o) that the explorer may place at any choice point (budgets r / p)
                                   between assignment and the first delivery from p
  combos: [[start, [cuts...]], ...]  (C08) before the program: for each pair seek(0, start), serve responses by the cut
                                   plan, poll until position() has passed everything the broker serves
  combo_call / drain_call: "getone"  poll with getone() (bounded by a timeout) instead of getmany()
  offset_fetch_delay_ms: n         the coordinator answers OffsetFetch n virtual ms late (a slow / loading coordinator)
  late_leader: {"part": p, "after_ms": n}   the leader of partition p is elected only n ms after assign()
  produce: {"part": p, "node": n, "nth": k}   an outside producer appends one record to partition p at the instant the k-th
                                   parked long poll of broker n expires
  codec: None | "py"               run the consumer on the pure-Python record readers
  waiter_order: fifo | lifo         order in which blocked getone()/getmany() callers are woken (the library iterates a set)
  expect_oor: {"0": n}              the committed offset when it lies outside the log (position() may report it until the
                                   broker has answered OFFSET_OUT_OF_RANGE)
  expect_start: {"0": n | ["raise", name] | None}   where consumption must start when no seek intervenes
                                   (computed by the property module from the grid; None: log start)
"""
import asyncio

from vf import conslogs, kwire
from vf.explore import Alt
from vf.runner import h64
from vf.simkafka import Cluster
from vf.simloop import T0

T_CALL = 0.3  # virtual seconds a blocking program call may take before the program moves on
T_PROG = 4.0  # bound for the whole program phase
GRACE = 0.03  # keep polling this long after everything was returned (spurious re-delivery shows up at once)


class ConsumerCluster(Cluster):
    """Cluster whose per-response batch limit can follow a plan or a one-shot explorer choice."""

    cut_plan = None
    cut_i = 0
    one_shot = None

    fetch_count = 0
    fetch_cap = 400
    storm = False
    cps_mark = 0

    RTT = 0.002  # network round trip applied once a connection sends Fetch after Fetch without virtual time advancing
    BURST = 20
    DATA_REPEAT_CAP = 30

    def __init__(self, *a, **kw):
        super().__init__(*a, **kw)
        self.data_fetches = []  # fetch positions of every Fetch that was answered with data
        self._burst = {}  # conn -> [time of the last Fetch, consecutive Fetches without an idle gap]
        self._same_data = [None, 0]

    produce_plan = None  # {"part": p, "node": n, "nth": k}: an outside producer appends one record to partition p at the
    # very instant the k-th parked long poll of broker n expires (so a reply with data and a reply without are pending together)
    produce_hook = None
    _parked = 0

    def h_Fetch(self, conn, req, entry, fault):
        Cluster.h_Fetch(self, conn, req, entry, fault)
        plan = self.produce_plan
        if plan and conn.node == plan["node"] and conn.ctx.get("fetch_timer") is not None and not conn.ctx.get("_counted") is req:
            conn.ctx["_counted"] = req
            self._parked += 1
            if self._parked == plan["nth"]:
                self.world.loop.call_at(conn.ctx["fetch_timer"].when(), self.produce_hook)

    def on_request(self, conn, frame, fault=None):
        # Deliveries are instantaneous in the explorer, so a client that re-sends a request the moment the previous one is
        # answered (a Fetch answered NOT_LEADER while its metadata refresh is queued behind its own long poll on another
        # connection; Metadata while a leader election is pending) would loop forever at one virtual instant.  A real
        # network has latency: after BURST back-to-back requests on a connection every further one is read one RTT later,
        # which lets timers fire.
        now = self.world.loop.time()
        st = self._burst.setdefault(conn, [now, 0])
        if now - st[0] > 5 * self.RTT:
            st[1] = 0
        st[0] = now
        st[1] += 1
        if st[1] <= self.BURST:
            return Cluster.on_request(self, conn, frame, fault)
        conn.busy = True

        def later():
            if not conn.closed:
                conn.busy = False
                Cluster.on_request(self, conn, frame, fault)

        self.world.loop.call_later(self.RTT, later)

    offset_fetch_delay = 0.0

    def h_OffsetFetch(self, conn, req, entry, fault):
        if not self.offset_fetch_delay:
            return Cluster.h_OffsetFetch(self, conn, req, entry, fault)
        # a slow coordinator: the request is applied and answered `offset_fetch_delay` later
        self.withhold(conn)

        def later():
            if not conn.closed:
                Cluster.h_OffsetFetch(self, conn, req, entry, fault)

        self.world.loop.call_later(self.offset_fetch_delay, later)

    def _fetch_body(self, conn, req, forced):
        self.fetch_count += 1
        if self.fetch_count == self.fetch_cap // 4:
            self.cps_mark = len(self.world.chooser.cps)
        if self.fetch_count > self.fetch_cap and not self.storm:
            # far more Fetch requests than any correct run of these scenarios needs: end the run, the scenario reports it
            self._end_run(f"more than {self.fetch_cap} Fetch requests")
        saved = self.fetch_batch_limit
        plan = self.cut_plan
        if self.one_shot is not None:
            self.fetch_batch_limit = self.one_shot
        elif plan is not None and self.cut_i < len(plan):
            self.fetch_batch_limit = plan[self.cut_i]
        try:
            body, any_data, any_error = super()._fetch_body(conn, req, forced)
        finally:
            self.fetch_batch_limit = saved
        if any_data and plan is not None and self.one_shot is None:
            self.cut_i += 1
        if any_data:
            key = tuple((td["topic"], pd["partition"], pd["fetch_offset"]) for td in req.body["topics"] for pd in td["partitions"])
            self.data_fetches.append(key)
            if key == self._same_data[0]:
                self._same_data[1] += 1
                if self._same_data[1] == 4:
                    self._repeat_mark = len(self.world.chooser.cps)
                if self._same_data[1] > self.DATA_REPEAT_CAP and not self.storm:
                    self._end_run("the same Fetch was answered with data over and over", self._repeat_mark)
            else:
                self._same_data = [key, 1]
        return body, any_data, any_error

    _repeat_mark = 0

    def _end_run(self, why, mark=None):
        # the run is reported as a violation; do not branch the search at the hundreds of choice points of the storm
        self.storm = why
        del self.world.chooser.cps[self.cps_mark if mark is None else mark:]
        self.world.frozen = True
        mt = self.world.main_task
        if mt is not None and not mt.done():
            self.world.loop.call_soon(mt.cancel)


class OrderedWaiters:
    """Insertion-ordered replacement for the identity-hashed `set()` in which the fetcher keeps the futures of blocked
    getone()/getmany() callers.  The library wakes them by iterating that set, i.e. in an order that depends on object
    addresses; the harness owns this source of nondeterminism and explores both extremes (`waiter_order` fifo / lifo)."""

    def __init__(self, lifo=False):
        self.d = {}
        self.lifo = lifo

    def add(self, f):
        self.d[f] = None

    def remove(self, f):
        del self.d[f]

    def discard(self, f):
        self.d.pop(f, None)

    def __iter__(self):
        keys = list(self.d)
        return iter(reversed(keys) if self.lifo else keys)

    def __len__(self):
        return len(self.d)

    def __contains__(self, f):
        return f in self.d


class ConsumerScenario:
    name = "consumer"

    def __init__(self, params):
        self.p = dict(params)
        self.violations = []
        self.world = None
        self.h = []  # harness-visible history, in the order things happened
        self.truth = {}
        self.consumer = None
        self.drain_done = None
        self.stop_error = None
        self.first_delivery = set()
        self.inject_fut = None
        self.window_closed = False  # inject_seek: the reset has completed as far as the application can tell
        self._moved = set()
        self._cut_cache = {}

    def fail(self, oracle, sig, msg):
        if any(o == oracle and s == sig for o, s, _ in self.violations):
            return  # one report per signature and execution (the explorer re-runs the execution for every report)
        self.violations.append((oracle, sig, msg))

    def rec(self, *a):
        self.h.append(a)
        self.world.record(*a)
        if a[0] in ("raised", "pos"):
            self.window_closed = True

    # ------------------------------------------------------------------------------------------------
    def setup(self, world):
        p = self.p
        versions = {k: tuple(v) for k, v in (p.get("versions") or {}).items()}
        nparts = len(p["logs"])
        cl = ConsumerCluster(world, nbrokers=p.get("brokers", 2),
                             topics={"t": {"partitions": nparts, "leaders": {i: i % p.get("brokers", 2) for i in range(nparts)}}},
                             versions=versions, coordinator=p.get("coordinator", 1))
        world.server = cl
        self.cluster = cl
        world.app_eager = p.get("baseline", "net") == "app"
        world.p_enabled = True
        committed_only = p.get("isolation", "read_uncommitted") == "read_committed"
        self.committed_only = committed_only
        for key, spec in sorted(p["logs"].items()):
            part = int(key)
            sp = cl.partition("t", part)
            if "shapes" in spec:
                raw, end, visible, spans = conslogs.build_log(spec["shapes"], part)
                if raw:
                    cl.preload_exact("t", part, raw)
                sp.end = max(sp.end, conslogs.log_end(spec["shapes"]))
                end = sp.end
                served_end = end
            else:
                tl = conslogs.TxnLog(spec["txn"], part, spec.get("removed", ()), spec.get("emptied", ()))
                tl.install(cl, "t", part)
                visible = tl.expected(committed_only, 0)
                end = tl.end
                served_end = tl.served_end(committed_only)
                self.truth.setdefault("txn", {})[part] = tl
            log_start = spec.get("log_start", 0)
            if log_start:
                sp.log = [s for s in sp.log if s.last >= log_start]
                sp.log_start = log_start
                # retention deletes whole segments: the log starts at a batch boundary
                visible = [o for o in visible if o >= log_start]
            lo_max = versions.get("ListOffsets", (0, 5))[1]
            latest = sp.lso if (committed_only and lo_max >= 2) else end
            self.truth[part] = {"visible": visible, "vset": set(visible), "end": end, "served_end": served_end,
                                "log_start": log_start, "lso": sp.lso, "latest": latest}
        if p.get("group") and p.get("committed"):
            g = cl.group(p["group"])
            for key, off in p["committed"].items():
                g.offsets[("t", int(key))] = (off, "")
        cuts = p.get("cuts")
        if isinstance(cuts, int):
            cl.fetch_batch_limit = cuts
        elif cuts:
            cl.cut_plan = list(cuts)
        cl.fetch_cap = p.get("fetch_cap", 400)
        cl.offset_fetch_delay = p.get("offset_fetch_delay_ms", 0) / 1000.0
        if p.get("produce"):
            cl.produce_plan = dict(p["produce"])
            cl.produce_hook = self.produce_one
        if p.get("late_leader"):
            # leader election for this partition is still pending at assignment time (metadata: LEADER_NOT_AVAILABLE)
            ll = p["late_leader"]
            sp = cl.partition("t", ll["part"])
            self._late = (sp, sp.leader, ll["after_ms"] / 1000.0)
            sp.leader = -1
        cl.fault_kinds = tuple(p.get("faults", ()))
        cl.fault_apis = set(p.get("fault_apis", ("Fetch",)))
        cl.err_codes = {k: list(v) for k, v in p.get("errs", {}).items()}
        if p.get("leader_move"):
            world.extra_alts.append(self.leader_move_alts)
        if p.get("cut_choice"):
            world.extra_alts.append(self.cut_alts)
        if p.get("inject_seek"):
            world.extra_alts.append(self.inject_alts)
        self._unpatch = None
        if p.get("codec") == "py":
            # run the consumer on the pure-Python record readers instead of the compiled ones
            import aiokafka.consumer.fetcher as fmod
            import aiokafka.record.default_records as dr
            import aiokafka.record.legacy_records as lr
            import aiokafka.record.memory_records as mr

            saved = (fmod.MemoryRecords, mr.DefaultRecordBatch, mr.LegacyRecordBatch)
            fmod.MemoryRecords = mr._MemoryRecordsPy
            mr.DefaultRecordBatch = dr._DefaultRecordBatchPy
            mr.LegacyRecordBatch = lr._LegacyRecordBatchPy

            def unpatch():
                fmod.MemoryRecords, mr.DefaultRecordBatch, mr.LegacyRecordBatch = saved
                self._unpatch = None

            self._unpatch = unpatch
        world.main_task = world.spawn("c", self.main)

    def produce_one(self):
        """An outside producer appends one v2 record to the partition (ground truth updated first)."""
        part = self.p["produce"]["part"]
        cl = self.cluster
        sp = cl.partition("t", part)
        t = self.truth[part]
        off = sp.end
        cl.preload_exact("t", part, conslogs.build_shape("v2x1", off, part))
        t["visible"].append(off)
        t["vset"].add(off)
        t["end"] = t["served_end"] = t["latest"] = sp.end
        t.setdefault("appear", {})[off] = self.world.now()
        self.world.log("produced", part, off)
        cl._wake_fetchers(sp)

    # ---- scenario-specific alternatives -------------------------------------------------------------------
    def leader_move_alts(self, world, quiescent):
        if world.chooser.remaining("f") <= 0 or not quiescent or not self.cluster.faults_enabled:
            return []
        out = []
        for part in self.p["leader_move"]:
            if part in self._moved:
                continue

            def move(part=part):
                self._moved.add(part)
                self.cluster.move_leader("t", part)
                world.log("leader-move", part, "->", self.cluster.partition("t", part).leader)

            out.append(Alt(f"leader-move:t-{part}", "f", move))
        return out

    def _avail(self, ev):
        """How many stored batches the broker could put into the response to this pending Fetch (max over partitions)."""
        n = self._cut_cache.get(ev.seq)
        if n is None:
            n = 0
            try:
                req = kwire.decode_request(ev.data)
                committed = req.body.get("isolation_level", 0) == 1
                for td in req.body["topics"]:
                    for pd in td["partitions"]:
                        sp = self.cluster.partition(td["topic"], pd["partition"])
                        if sp is None or sp.leader != ev.conn.node:
                            continue
                        off = pd["fetch_offset"]
                        limit = sp.lso if committed else sp.end
                        n = max(n, sum(1 for s in sp.log if s.last >= off and s.base < limit))
            except Exception:  # noqa: BLE001
                n = 0
            self._cut_cache[ev.seq] = n
        return n

    def cut_alts(self, world, quiescent):
        if world.chooser.remaining("x") <= 0:
            return []
        out = []
        for ev in world.net.heads():
            if ev.kind != "req" or ev.info != "Fetch":
                continue
            for j in range(1, self._avail(ev)):
                def go(ev=ev, j=j):
                    cl = self.cluster
                    cl.one_shot = j
                    try:
                        world.net.deliver(ev)
                    finally:
                        cl.one_shot = None

                out.append(Alt(f"cut{j}:{ev.conn.label}:Fetch", "x", go))
        return out

    def inject_alts(self, world, quiescent):
        fut = self.inject_fut
        if fut is None or fut.done():
            return []
        part = self.p["inject_seek"][0]
        if part in self.first_delivery or self.window_closed:
            return []
        return [Alt("gate:inject-seek", "g", lambda: (not fut.done()) and fut.set_result(None))]

    # ---- the application -----------------------------------------------------------------------------------
    def tp(self, part):
        from aiokafka.structs import TopicPartition

        return TopicPartition("t", part)

    async def main(self):
        from aiokafka import AIOKafkaConsumer

        world = self.world
        p = self.p
        cl = self.cluster
        consumer = AIOKafkaConsumer(
            bootstrap_servers="b0:9000", client_id="c", group_id=p.get("group"),
            request_timeout_ms=p.get("request_timeout_ms", 1000), retry_backoff_ms=p.get("retry_backoff_ms", 50),
            fetch_max_wait_ms=p.get("fetch_max_wait_ms", 200), consumer_timeout_ms=p.get("consumer_timeout_ms", 200),
            metadata_max_age_ms=p.get("metadata_max_age_ms", 1_000_000), auto_offset_reset=p.get("policy", "earliest"),
            enable_auto_commit=False, isolation_level=p.get("isolation", "read_uncommitted"),
            max_poll_records=p.get("max_poll_records"))
        self.consumer = consumer
        cl.faults_enabled = False
        world.frozen = True
        await consumer.start()
        waiters = OrderedWaiters(lifo=p.get("waiter_order", "fifo") == "lifo")
        assert not consumer._fetcher._fetch_waiters
        consumer._fetcher._fetch_waiters = waiters
        consumer._subscription.register_fetch_waiters(waiters)
        world.frozen = False
        cl.faults_enabled = True
        parts = sorted(int(k) for k in p["logs"])
        consumer.assign([self.tp(i) for i in parts])
        self.rec("assigned", tuple(parts))
        if p.get("late_leader"):
            sp, leader, after = self._late

            def elect():
                sp.leader = leader
                world.log("leader-elected", sp.index, leader)

            world.loop.call_later(after, elect)
        if p.get("combos"):
            await self.run_combos()
        tasks = [world.spawn("c", self.prog_task, i, prog) for i, prog in enumerate(p.get("program", []))]
        injector = None
        if p.get("inject_seek"):
            injector = world.spawn("c", self.injector)
        if tasks:
            await asyncio.wait(tasks, timeout=T_PROG)
        for t in tasks:
            if not t.done():
                t.cancel()
            elif not t.cancelled() and t.exception() is not None:
                self.fail("harness-main", {"what": "program-task-exception", "type": type(t.exception()).__name__},
                          f"program task failed: {t.exception()!r}")
        if tasks:
            await asyncio.wait(tasks, timeout=0.01)
        self.window_closed = True
        if p.get("drain", True):
            await self.drain()
        if injector is not None and not injector.done():
            injector.cancel()
        self.rec("end")
        # final positions (harness-side observation through the public API, bounded)
        world.frozen = True
        cl.faults_enabled = False
        try:
            await asyncio.wait_for(consumer.stop(), 5.0)
        except Exception as e:  # noqa: BLE001
            self.stop_error = repr(e)

    async def run_combos(self):
        """C08 input sweep inside one run: for every (start offset, cut plan) seek there, poll until the position has
        passed everything the broker serves, and let the reference reader judge what came back."""
        world = self.world
        cl = self.cluster
        c = self.consumer
        tl = self.truth["txn"][0]
        tp = self.tp(0)
        committed_only = self.committed_only
        for k, (s0, cut) in enumerate(self.p["combos"]):
            cl.cut_plan = list(cut)
            cl.cut_i = 0
            n0 = len(cl.data_fetches)
            c.seek(tp, s0)
            self.rec("seek", 0, s0, f"combo{k}")
            maxpolls = len(tl.batches) + 3
            polls = 0
            pos = None
            by_one = self.p.get("combo_call") == "getone"
            if by_one:
                maxpolls += sum(txn_span for txn_span in (b[2] - b[1] + 1 for b in tl.batches))
            while polls < maxpolls:
                if by_one:
                    await self.do_call("c", k, ["getone"], timeout=0.1)
                else:
                    await self.do_call("c", k, ["getmany", {"t": 100}], timeout=2.0)
                polls += 1
                try:
                    pos = await asyncio.wait_for(c.position(tp), 1.0)
                except asyncio.TimeoutError:
                    pos = None
                    continue
                self.rec("pos", "c", k, 0, pos, False)
                if not tl.has_served_from(pos, committed_only):
                    break
            fetched = [x[0][2] for x in cl.data_fetches[n0:]]
            self.rec("combo-end", 0, k, s0, tuple(cut), pos, polls, tuple(fetched))
        cl.cut_plan = None

    async def injector(self):
        world = self.world
        part, off = self.p["inject_seek"]
        self.inject_fut = world.loop.create_future()
        await self.inject_fut
        self.consumer.seek(self.tp(part), off)
        self.rec("seek", part, off, "inject")

    async def prog_task(self, i, prog):
        world = self.world
        for j, call in enumerate(prog):
            await world.gate(f"t{i}.{j}")
            await self.do_call(i, j, call)

    def _flatten(self, rec):
        return (rec.partition, rec.offset, rec.value, rec.key)

    def note_returned(self, recs):
        for r in recs:
            self.first_delivery.add(r[0])

    async def do_call(self, i, j, call, timeout=T_CALL):
        c = self.consumer
        name = call[0]
        if name == "seek":
            c.seek(self.tp(call[1]), call[2])
            self.rec("seek", call[1], call[2], f"t{i}.{j}")
            return
        if name == "seekpos":
            c.seek(self.tp(call[1]), call[2])
            self.rec("seek", call[1], call[2], f"t{i}.{j}")
            # no await that can yield between the two: position() returns at once when the position is valid
            pos = await c.position(self.tp(call[1]))
            self.rec("pos", i, j, call[1], pos, True)
            return
        if name == "pause":
            c.pause(self.tp(call[1]))
            self.rec("pause", call[1])
            return
        if name == "resume":
            c.resume(self.tp(call[1]))
            self.rec("resume", call[1])
            return
        try:
            if name == "position":
                pos = await asyncio.wait_for(c.position(self.tp(call[1])), timeout)
                self.rec("pos", i, j, call[1], pos, False)
            elif name == "getone":
                parts = tuple(call[1]) if len(call) > 1 and call[1] else ()
                if len(call) > 2:
                    timeout = call[2]
                self.rec("call", i, j, "getone", parts)
                t_start = self.world.now()
                r = await asyncio.wait_for(c.getone(*[self.tp(x) for x in parts]), timeout)
                recs = (self._flatten(r),)
                self.note_returned(recs)
                self.rec("ret", i, j, "getone", parts, recs)
            elif name == "getmany":
                opt = call[1] if len(call) > 1 else {}
                parts = tuple(opt.get("parts") or ())
                self.rec("call", i, j, "getmany", parts)
                d = await asyncio.wait_for(c.getmany(*[self.tp(x) for x in parts], timeout_ms=opt.get("t", 0),
                                                     max_records=opt.get("max")), timeout + opt.get("t", 0) / 1000.0)
                recs = tuple(self._flatten(r) for tp, lst in d.items() for r in lst)
                for tp, lst in d.items():
                    for r in lst:
                        if r.partition != tp.partition:
                            self.fail("content", {"what": "record-under-wrong-key"}, f"getmany returned {r} under key {tp}")
                self.note_returned(recs)
                self.rec("ret", i, j, "getmany", parts, recs)
            else:
                raise ValueError(call)
        except asyncio.TimeoutError:
            if name == "getone":
                self.rec("timeout", i, j, name, parts, t_start, self.world.now())
            else:
                self.rec("timeout", i, j, name)
        except asyncio.CancelledError:
            raise
        except Exception as e:  # noqa: BLE001
            self.rec("raised", i, j, name, type(e).__name__, str(e)[:120])

    def _model_now(self):
        """Run the reference model over the history so far; used by the drainer to know when it may stop."""
        m = Model(self)
        m.run(self.h, quiet=True)
        return m

    async def drain(self):
        world = self.world
        p = self.p
        H = p.get("horizon", 4.0)
        t0 = world.loop.time()
        done_at = None
        k = 0
        # bounded liveness: H of quiet virtual time, counted from the start of polling or from the last deviation
        # (fault, reordering, injected event) the explorer made, whichever is later
        while world.loop.time() < max(t0, getattr(world, "last_dev_t", 0.0) + T0) + H:
            m = self._model_now()
            if m.all_returned():
                if done_at is None:
                    done_at = world.loop.time()
                elif world.loop.time() - done_at >= p.get("grace", GRACE):
                    break
            else:
                done_at = None
            n = len(self.h)
            if p.get("drain_call") == "getone":
                await self.do_call("d", k, ["getone"], timeout=p.get("drain_poll_ms", 100) / 1000.0)
            else:
                await self.do_call("d", k, ["getmany", {"t": p.get("drain_poll_ms", 100)}], timeout=2.0)
            k += 1
            if any(e[0] == "raised" for e in self.h[n:]):
                # an application does not spin on a failing poll
                await asyncio.sleep(p.get("drain_poll_ms", 100) / 1000.0)
        self.drain_done = world.now()

    # ---- end-of-run oracles ----------------------------------------------------------------------------------
    def finish(self, world):
        if self._unpatch is not None:
            self._unpatch()
        if world.capped:
            return
        mt = world.main_task
        if self.cluster.storm:
            offs = [tuple(pd["fetch_offset"] for td in e["body"]["topics"] for pd in td["partitions"])
                    for e in self.cluster.arrivals if e["api"] == "Fetch"][-6:]
            same = len(set(offs)) <= 2
            self.fail("stall", {"what": "fetch-storm", "same_request_repeated": same},
                      f"{self.cluster.storm}: {self.cluster.fetch_count} Fetch requests in one run (cap {self.cluster.fetch_cap}); "
                      f"last fetch offsets {offs}")
            return
        if mt.done() and not mt.cancelled() and mt.exception() is not None:
            exc = mt.exception()
            self.fail("harness-main", {"what": "main-exception", "type": type(exc).__name__}, f"scenario main failed: {exc!r}")
            return
        if self.stop_error is not None:
            self.fail("harness-main", {"what": "stop-failed"}, f"consumer.stop() did not finish: {self.stop_error}")
        m = Model(self)
        m.run(self.h)
        if self.p.get("drain", True):
            m.check_liveness()
        self.model = m

    def outcome(self):
        if self._unpatch is not None:
            self._unpatch()
        hist = tuple(e for e in self.h if e[0] in ("ret", "raised", "pos", "seek", "timeout"))
        return h64((hist, len(self.cluster.arrivals)))


class Model:
    """Reference consumer: per partition a list of visible offsets and a current start position."""

    def __init__(self, scn):
        self.scn = scn
        self.truth = {k: v for k, v in scn.truth.items() if isinstance(k, int)}
        self.pos = dict.fromkeys(self.truth)  # None: no seek yet, start decided by the committed offset / reset policy
        self.sought = dict.fromkeys(self.truth, False)
        self.oor = dict.fromkeys(self.truth)  # target of the last seek when it lies outside the log
        self.returned_since = dict.fromkeys(self.truth, 0)
        self.paused = dict.fromkeys(self.truth, False)
        self.raised = {k: [] for k in self.truth}
        self.nret = dict.fromkeys(self.truth, 0)
        self.expect = {}
        es = scn.p.get("expect_start") or {}
        for part in self.truth:
            e = es.get(str(part))
            self.expect[part] = e if e is not None else self.truth[part]["log_start"]
            # a committed offset outside the log: the consumer does start there, until the broker reports it out of range
            self.oor[part] = (scn.p.get("expect_oor") or {}).get(str(part))
        self.quiet = False

    def fail(self, oracle, sig, msg):
        if not self.quiet:
            self.scn.fail(oracle, sig, msg)

    def next_visible(self, part, pos):
        for o in self.truth[part]["visible"]:
            if o >= pos:
                return o
        return None

    def start_of(self, part):
        """Current start position of the reference (None when the expected behaviour is an exception)."""
        if self.pos[part] is not None:
            return self.pos[part]
        e = self.expect[part]
        if isinstance(e, (list, tuple)):
            return None
        return e

    def why_invisible(self, part, off):
        tl = self.scn.truth.get("txn", {}).get(part)
        t = self.truth[part]
        if off >= t["end"] or off < 0:
            return "beyond-log-end"
        if off < t["log_start"]:
            return "below-log-start"
        if tl is not None:
            for i, base, last, e in tl.batches:
                if base <= off <= last:
                    if e[0] in ("c", "a"):
                        return "control-record"
                    if i in tl.removed:
                        return "compacted-away"
                    if tl.status[i] == "aborted":
                        return "aborted-transaction"
                    if off >= tl.lso:
                        return "above-last-stable-offset"
                    if tl.status[i] == "open":
                        return "open-transaction"
            return "unknown"
        return "not-a-data-record"

    def run(self, history, quiet=False):
        self.quiet = quiet
        for ev in history:
            kind = ev[0]
            if kind == "seek":
                self.on_seek(ev[1], ev[2])
            elif kind == "pause":
                self.paused[ev[1]] = True
            elif kind == "resume":
                self.paused[ev[1]] = False
            elif kind == "ret":
                self.on_return(ev)
            elif kind == "pos":
                self.on_position(ev)
            elif kind == "raised":
                self.on_raised(ev)
            elif kind == "combo-end":
                self.on_combo_end(ev)
            elif kind == "timeout" and len(ev) > 4:
                self.on_getone_timeout(ev)

    def on_seek(self, part, o):
        t = self.truth[part]
        self.sought[part] = True
        self.returned_since[part] = 0
        if t["log_start"] <= o <= t["end"]:
            self.pos[part] = o
            self.oor[part] = None
            return
        # the broker will report this position out of range: the start position becomes the reset result
        self.oor[part] = o
        policy = self.scn.p.get("policy", "earliest")
        if policy == "earliest":
            self.pos[part] = t["log_start"]
        elif policy == "latest":
            self.pos[part] = t["latest"]
        else:
            self.pos[part] = None
            self.expect[part] = ["raise", "OffsetOutOfRangeError"]

    def on_return(self, ev):
        _, task, idx, name, parts_arg, recs = ev
        for part, off, value, key in recs:
            where = f"{name} (task {task} call {idx})"
            if part not in self.truth:
                self.fail("content", {"what": "unassigned-partition"}, f"{where} returned a record of partition {part}")
                continue
            t = self.truth[part]
            self.nret[part] += 1
            if parts_arg and part not in parts_arg:
                self.fail("filter", {"what": "outside-partitions-argument", "call": name},
                          f"{where} restricted to partitions {parts_arg} returned t-{part}@{off}")
            if self.paused[part]:
                self.fail("pause", {"what": "returned-while-paused", "call": name}, f"{where} returned t-{part}@{off} while the partition is paused")
            if off not in t["vset"]:
                why = self.why_invisible(part, off)
                self.fail("visible", {"what": "delivered-invisible", "why": why, "isolation": self.scn.p.get("isolation", "read_uncommitted")},
                          f"{where} returned t-{part}@{off} which is not a visible record ({why})")
                continue
            if value != conslogs.value_of(part, off) or key != conslogs.key_of(off):
                self.fail("content", {"what": "wrong-content"}, f"{where}: t-{part}@{off} came back as key={key!r} value={value!r}")
            start = self.start_of(part)
            after_seek = self.sought[part] and self.returned_since[part] == 0
            if start is None:
                self.fail("start", {"what": "delivered-instead-of-raising", "expected": self.expect[part][1]},
                          f"{where} returned t-{part}@{off} although no start position exists: expected {self.expect[part][1]}")
                self.pos[part] = off + 1
                self.returned_since[part] += 1
                continue
            exp = self.next_visible(part, start)
            first = self.nret[part] == 1 and not self.sought[part]
            if off != exp:
                if off < start:
                    what = "repeated-or-below-position"
                else:
                    what = "skipped"
                sig = {"what": what, "after_seek": after_seek, "first_delivery": first}
                self.fail("order", sig,
                          f"{where} returned t-{part}@{off}; the reference consumer positioned at {start} "
                          f"({'after seek' if after_seek else 'start of consumption' if first else 'after the previous record'}) expects offset {exp}")
            self.pos[part] = off + 1
            self.returned_since[part] += 1

    def on_position(self, ev):
        _, task, idx, part, value, right_after_seek = ev
        start = self.start_of(part)
        where = f"position(t-{part}) (task {task} call {idx})"
        if start is None and self.oor[part] is not None and value == self.oor[part]:
            return
        if start is None:
            self.fail("position", {"what": "position-without-start", "expected": self.expect[part][1]},
                      f"{where} returned {value} although no start position exists: expected {self.expect[part][1]}")
            return
        if right_after_seek:
            want = self.oor[part] if self.oor[part] is not None else start
            if value != want:
                self.fail("position", {"what": "position-after-seek"}, f"{where} right after seek({want}) returned {value}")
            return
        if self.oor[part] is not None and value == self.oor[part] and self.returned_since[part] == 0:
            return  # the broker has not reported the sought offset out of range yet
        nxt = self.next_visible(part, start)
        # nothing visible left: records at/after the end of what is served (LSO for read_committed, else the high
        # watermark) become visible later, a position beyond that point would skip them
        upper = nxt if nxt is not None else max(self.truth[part]["served_end"], start)
        if not start <= value <= upper:
            what = "position-behind" if value < start else "position-ahead"
            self.fail("position", {"what": what, "sought": self.sought[part] and self.returned_since[part] == 0},
                      f"{where} returned {value}; allowed [{start}, {upper}] (one past the last returned record / seek target "
                      f".. next visible unreturned record)")
        # position() does not move the reference

    PARKED = 1.0  # a caller blocked in getone() this long while a visible record was there the whole time was not woken

    def on_getone_timeout(self, ev):
        _, task, idx, name, parts, t0, t1 = ev
        if t1 - t0 < self.PARKED:
            return
        for part in self.truth:
            if (parts and part not in parts) or self.paused[part]:
                continue
            start = self.start_of(part)
            if start is None:
                continue
            nxt = self.next_visible(part, start)
            if nxt is None:
                continue
            since = max(t0, self.truth[part].get("appear", {}).get(nxt, 0.0))
            if t1 - since >= self.PARKED:
                self.fail("liveness", {"what": "blocked-getone-not-woken"},
                          f"getone() (task {task} call {idx}) stayed blocked from {t0:.3f}s to {t1:.3f}s although t-{part}@{nxt} was in the log "
                          f"since {since:.3f}s and no fault occurred in between")

    def on_combo_end(self, ev):
        _, part, k, s0, cut, pos, polls, fetched = ev
        tl = self.scn.truth["txn"][part]
        committed_only = self.scn.committed_only
        where = f"start offset {s0}, responses of {list(cut)} batches"
        iso = self.scn.p.get("isolation", "read_uncommitted")
        nxt = self.next_visible(part, self.pos[part])
        if nxt is not None:
            self.fail("liveness", {"what": "served-record-not-delivered", "isolation": iso, "kind": tl.kind_at(nxt)},
                      f"{where}: record at {nxt} was served but never delivered ({polls} polls, position {pos})")
        if pos is None or tl.has_served_from(pos, committed_only):
            at = tl.kind_at(pos) if pos is not None else "no-position"
            self.fail("stall", {"what": "position-not-past-served-data", "isolation": iso, "stuck_at": at},
                      f"{where}: after {polls} polls position() is {pos} but the broker still serves a batch there ({at}); "
                      f"fetch positions answered with data: {list(fetched)}")
        worst = max((fetched.count(x) for x in set(fetched)), default=0)
        if worst > 2:
            off = max(set(fetched), key=fetched.count)
            self.fail("stall", {"what": "same-fetch-repeated", "isolation": iso, "stuck_at": tl.kind_at(off)},
                      f"{where}: Fetch at offset {off} was answered with data {worst} times: {list(fetched)}")

    def on_raised(self, ev):
        _, task, idx, name, etype, msg = ev
        # which partition?  the library reports it inside the exception; the expectation is per partition
        ok = False
        for part, e in self.expect.items():
            if isinstance(e, (list, tuple)) and e[1] == etype and self.pos[part] is None:
                ok = True
                self.raised[part].append(etype)
        if not ok:
            import re

            inner = re.search(r"(\w+(?:Error|Exception))\(", msg)
            self.fail("exception", {"what": "unexpected-exception", "type": etype, "detail": inner.group(1) if inner else ""},
                      f"{name} (task {task} call {idx}) raised {etype}: {msg}")

    # -- bounded liveness ----------------------------------------------------------------------------------------
    def all_returned(self):
        for part in self.truth:
            if self.paused[part]:
                continue
            start = self.start_of(part)
            if start is None:
                if not self.raised[part]:
                    return False
                continue
            if self.next_visible(part, start) is not None:
                return False
        return True

    def check_liveness(self):
        H = self.scn.p.get("horizon", 4.0)
        for part in self.truth:
            if self.paused[part]:
                continue
            start = self.start_of(part)
            if start is None:
                if not self.raised[part]:
                    cause = self.stall_cause(part)
                    self.fail("liveness", {"what": "expected-exception-not-raised", "expected": self.expect[part][1], "cause": cause},
                              f"t-{part}: {self.expect[part][1]} was never raised to a polling task within {H}s; diagnosis: {cause}")
                continue
            nxt = self.next_visible(part, start)
            if nxt is not None:
                cause = self.stall_cause(part)
                self.fail("liveness", {"what": "not-delivered-to-log-end", "cause": cause},
                          f"t-{part}: visible record at {nxt} (reference position {start}) not returned to a task that kept polling for {H}s "
                          f"of quiet virtual time; diagnosis: {cause}")

    def stall_cause(self, part):
        """Name the mechanism of a stall from the cluster's arrival log (keeps the signatures of different stalls apart)."""
        cl = self.scn.cluster
        sp = cl.partition("t", part)
        lo = [e for e in cl.arrivals if e["api"] == "ListOffsets"
              and any(pd["partition_index"] == part for td in e["body"]["topics"] for pd in td["partitions"])]
        fe = [e for e in cl.arrivals if e["api"] == "Fetch"
              and any(pd["partition"] == part for td in e["body"]["topics"] for pd in td["partitions"])]
        md = [e for e in cl.arrivals if e["api"] == "Metadata"]
        last = lo[-3:]
        if len(last) == 3 and all(e["node"] != sp.leader for e in last) and (not fe or fe[-1]["seq"] < last[0]["seq"]):
            if not md or md[-1]["seq"] < last[0]["seq"]:
                return "offset-reset-retried-at-stale-leader-without-metadata-refresh"
            return "offset-reset-at-stale-leader"
        lastf = fe[-3:]
        if len(lastf) == 3 and all(e["node"] != sp.leader for e in lastf):
            return "fetch-at-stale-leader"
        if len(lastf) == 3 and len({tuple(pd["fetch_offset"] for td in e["body"]["topics"] for pd in td["partitions"] if pd["partition"] == part)
                                    for e in lastf}) == 1:
            return "same-fetch-repeated"
        of = [e for e in cl.arrivals if e["api"] == "OffsetFetch"]
        if not fe and not lo and of and of[-1].get("fault"):
            return f"committed-offset-lookup-not-retried-after-{of[-1]['fault'][0]}-{of[-1]['fault'][1]}"
        if not fe:
            return "never-fetched"
        return "other"


def make(params):
    return ConsumerScenario(params)


def explore_chunked(ctx, jobs, max_tasks=60_000):
    """explore.explore_many over `jobs` in several calls.  explore_many keeps the whole frontier of a level (one task tuple
    with the scenario parameters per first/second-level deviation list) and every returned accumulator in the parent, and
    the workers of the next level are forked from that parent; with thousands of scenarios that is gigabytes per worker.
    Chunks are sized by a rough estimate of the number of second-level tasks a job produces."""
    from vf import explore

    def weight(bounds):
        blist = bounds if isinstance(bounds, (list, tuple)) else [bounds or {}]
        pairs = sum(1 for b in blist if sum(b.values()) >= 2)
        return 5000 * pairs if pairs else 80

    counts = {}
    chunk, w = [], 0
    for job in list(jobs) + [None]:
        if job is not None and (not chunk or w + weight(job[3]) <= max_tasks):
            chunk.append(job)
            w += weight(job[3])
            continue
        if chunk:
            counts.update(explore.explore_many(ctx, chunk))
            ctx.count("scenarios", 0)
        chunk, w = ([job], weight(job[3])) if job is not None else ([], 0)
    return counts


def family_sigs(ctx):
    """explore adds the full scenario name to every signature; the consumer checks run thousands of scenarios, so
    signatures keep only the family (the part before the first '/') and equal ones are merged."""
    import json

    seen = set()
    kept = []
    for v in ctx.violations:
        sig = dict(v["sig"])
        if "scenario" in sig:
            sig["scenario"] = str(sig["scenario"]).split("/")[0]
        key = json.dumps(sig, sort_keys=True, default=str)
        if key in seen:
            continue
        seen.add(key)
        v["sig"] = sig
        v["key"] = key
        kept.append(v)
    ctx.violations[:] = kept
