"""Reference model of the *documented* transactional producer API (C16) - independent of aiokafka's code.

Calls: begin, send0, send1, offsets, commit, abort, exit_clean (`async with producer.transaction()` left normally =
commit), exit_exc (left by an exception = abort).  Broker errors the producer has been told about are fed in as
`error(code)` events: TOPIC/GROUP_AUTHORIZATION_FAILED are abortable, INVALID_PRODUCER_EPOCH (fencing),
OUT_OF_ORDER_SEQUENCE_NUMBER and TRANSACTIONAL_ID_AUTHORIZATION_FAILED are fatal, everything else is retried inside
the producer and invisible here.

`expect(call, mid)` -> (verdict, classes): "returns" | "raises" (classes = acceptable exception class names, None = any)
| "any" (the documentation does not decide).  `mid` = error codes delivered while the call was in progress.
"""
CALLS = ("begin", "send0", "send1", "offsets", "commit", "abort", "exit_clean", "exit_exc")
ABORTABLE = {29: "TopicAuthorizationFailedError", 30: "GroupAuthorizationFailedError"}
FATAL = {47: "ProducerFenced", 45: "OutOfOrderSequenceNumber", 53: "TransactionalIdAuthorizationFailed"}
COMMITS = ("commit", "exit_clean")
ABORTS = ("abort", "exit_exc")
ILLEGAL = "illegal"  # marker: out-of-order call (IllegalOperation / IllegalStateError family, see vf.scen_txn.illegal_class_ok)


class Model:
    def __init__(self):
        self.state = "READY"  # READY | IN_TXN | ABORTABLE | FATAL
        self.errs = set()  # class names of the abortable errors of the current transaction
        self.fatal = None

    def copy(self):
        m = Model()
        m.state, m.errs, m.fatal = self.state, set(self.errs), self.fatal
        return m

    def legal(self, call):
        """Fault-free legality (used to generate call sequences)."""
        if self.state == "READY":
            return call == "begin"
        if self.state == "IN_TXN":
            return call != "begin"
        return False

    def error(self, code):
        if code in FATAL:
            self.state, self.fatal = "FATAL", FATAL[code]
        elif code in ABORTABLE and self.state in ("IN_TXN", "ABORTABLE"):
            self.state = "ABORTABLE"
            self.errs.add(ABORTABLE[code])

    def expect(self, call, mid=()):
        fatal_mid = [c for c in mid if c in FATAL]
        abort_mid = [ABORTABLE[c] for c in mid if c in ABORTABLE]
        s = self.state
        if s == "FATAL" or fatal_mid:
            if s != "FATAL" and call in ("send0", "send1", "begin"):
                return ("any", None)  # did not wait for the broker: decided before the error was known
            return ("any", None) if call == "exit_exc" else ("raises", None)
        if s == "READY":
            return ("returns", None) if call == "begin" else ("raises", ILLEGAL)
        if call == "begin":
            return ("raises", ILLEGAL)
        if s == "IN_TXN":
            if call in ("send0", "send1"):
                return ("returns", None) if not abort_mid else ("any", None)
            if call == "offsets" or call in COMMITS:
                return ("raises", set(abort_mid)) if abort_mid else ("returns", None)
            return ("any", None) if abort_mid else ("returns", None)  # abort
        # ABORTABLE
        if call in COMMITS:
            return ("raises", self.errs | set(abort_mid))
        if call in ABORTS:
            return ("any", None) if abort_mid else ("returns", None)
        return ("any", None)  # send / offsets after an abortable error: refused or doomed, not specified

    def step(self, call, ok, mid=()):
        """The call finished (ok = returned normally); errors delivered meanwhile are applied first."""
        for c in mid:
            self.error(c)
        if self.state == "FATAL" or not ok:
            return
        if call == "begin" and self.state == "READY":
            self.state = "IN_TXN"
        elif call in COMMITS + ABORTS and self.state in ("IN_TXN", "ABORTABLE"):
            self.state = "READY"
            self.errs = set()


def sequences(max_len, max_illegal=1):
    """Every call sequence of 1..max_len calls in which at most `max_illegal` calls are illegal in the fault-free
    model (an illegal call leaves the model state unchanged, so longer runs of illegal calls are equivalent)."""
    out = []

    def rec(m, seq, illegal):
        if seq:
            out.append(tuple(seq))
        if len(seq) == max_len:
            return
        for c in CALLS:
            if m.legal(c):
                m2 = m.copy()
                m2.step(c, True)
                rec(m2, seq + [c], illegal)
            elif illegal < max_illegal:
                rec(m, seq + [c], illegal + 1)

    rec(Model(), [], 0)
    return out
