"""E4 - simulated Kafka cluster: brokers, partition logs, idempotent-producer state, transaction
coordinator, group coordinator.  Deterministic; driven only by explorer-chosen deliveries.

It speaks the wire protocol through vf.kwire (independent tables) and parses / builds record
batches through vf.krecords (independent codec) - never through aiokafka's own classes.

Everything that arrives is journaled in `arrivals`; oracles read `arrivals`, the partition logs
and the coordinator journals.
"""
import struct

from vf import krecords, kwire
from vf.explore import Alt

NONE = 0
OFFSET_OUT_OF_RANGE = 1
CORRUPT_MESSAGE = 2
UNKNOWN_TOPIC_OR_PARTITION = 3
LEADER_NOT_AVAILABLE = 5
NOT_LEADER = 6
REQUEST_TIMED_OUT = 7
COORDINATOR_LOAD_IN_PROGRESS = 14
COORDINATOR_NOT_AVAILABLE = 15
NOT_COORDINATOR = 16
NOT_ENOUGH_REPLICAS = 19
NOT_ENOUGH_REPLICAS_AFTER_APPEND = 20
ILLEGAL_GENERATION = 22
INCONSISTENT_GROUP_PROTOCOL = 23
UNKNOWN_MEMBER_ID = 25
INVALID_SESSION_TIMEOUT = 26
REBALANCE_IN_PROGRESS = 27
TOPIC_AUTHORIZATION_FAILED = 29
GROUP_AUTHORIZATION_FAILED = 30
UNSUPPORTED_VERSION = 35
OUT_OF_ORDER_SEQUENCE_NUMBER = 45
DUPLICATE_SEQUENCE_NUMBER = 46
INVALID_PRODUCER_EPOCH = 47
INVALID_TXN_STATE = 48
INVALID_PRODUCER_ID_MAPPING = 49
CONCURRENT_TRANSACTIONS = 51
TRANSACTIONAL_ID_AUTHORIZATION_FAILED = 53
MEMBER_ID_REQUIRED = 79

K = kwire.API_KEYS
INT32_MAX = 2**31 - 1

# what aiokafka may use; a scenario can narrow any of these per API
DEFAULT_VERSIONS = {
    "Produce": (0, 8), "Fetch": (0, 11), "ListOffsets": (0, 5), "Metadata": (0, 8), "OffsetCommit": (0, 7),
    "OffsetFetch": (0, 5), "FindCoordinator": (0, 2), "JoinGroup": (0, 5), "Heartbeat": (0, 3),
    "LeaveGroup": (0, 2), "SyncGroup": (0, 3), "SaslHandshake": (0, 1), "ApiVersions": (0, 2),
    "InitProducerId": (0, 1), "AddPartitionsToTxn": (0, 1), "AddOffsetsToTxn": (0, 1), "EndTxn": (0, 1),
    "TxnOffsetCommit": (0, 2), "SaslAuthenticate": (0, 1), "DescribeGroups": (0, 4), "ListGroups": (0, 2),
}


def seq_add(seq, inc):
    """Kafka DefaultRecordBatch.incrementSequence: wraps 2^31-1 -> 0."""
    if seq > INT32_MAX - inc:
        return inc - (INT32_MAX - seq) - 1
    return seq + inc


class Stored:
    __slots__ = ("base", "last", "raw", "batch")

    def __init__(self, base, last, raw, batch):
        self.base = base
        self.last = last
        self.raw = raw
        self.batch = batch


class Partition:
    def __init__(self, topic, index, leader, replicas):
        self.topic = topic
        self.index = index
        self.leader = leader
        self.replicas = list(replicas)
        self.log = []  # Stored, ascending
        self.log_start = 0
        self.end = 0  # next offset (= high watermark: replication is instantaneous)
        self.producers = {}  # pid -> dict(epoch, last_seq, recent=[(base_seq, last_seq, base_offset, ts)])
        self.open_txns = {}  # pid -> first offset of the open transaction
        self.aborted = []  # (pid, first_offset, marker_offset)
        self.fetch_waiters = []

    @property
    def lso(self):
        return min(self.open_txns.values()) if self.open_txns else self.end

    def append_raw(self, raw, batch):
        st = Stored(batch.base_offset, batch.last_offset, raw, batch)
        self.log.append(st)
        self.end = batch.last_offset + 1
        return st


class Topic:
    def __init__(self, name, partitions, timestamp_type=0):
        self.name = name
        self.partitions = partitions
        self.timestamp_type = timestamp_type
        self.authorized = True


class Cluster:
    """The `server` object of a World."""

    def __init__(self, world, nbrokers=2, topics=None, versions=None, coordinator=0):
        self.world = world
        self.nodes = list(range(nbrokers))
        self.up = dict.fromkeys(self.nodes, True)
        self.topics = {}
        for name, spec in (topics or {"t": 2}).items():
            self.add_topic(name, spec)
        self.versions = dict(DEFAULT_VERSIONS)
        self.versions.update(versions or {})
        self.arrivals = []  # every request, decoded, in arrival order
        self.journal = []  # state changes (appends, coordinator transitions)
        self.next_pid = 1000
        self.pid_epochs = {}  # pid -> current epoch (idempotent-only producers: 0)
        self.coordinator = coordinator  # node hosting every group / transaction coordinator
        self.coordinator_loading = False
        self.txns = {}  # transactional id -> TxnState
        self.txn_authorized = True
        self.groups = {}  # group id -> Group
        self.group_authorized = True
        self.err_codes = {}  # api name -> [codes] offered as per-request ERR faults
        self.fault_kinds = ("drop-before", "drop-after", "lose", "err")
        self.fault_apis = None  # None = all
        self.blackhole = False
        self.isolated = set()  # owners (clients) currently cut off from every broker
        self.faults_enabled = True  # scenarios switch faults off while a client bootstraps (start() failing is not a property violation)
        self.fetch_batch_limit = None  # max batches per partition per fetch response (None = all)
        self.heartbeat_in_completing = NONE
        self.sasl = None
        self.write_hooks = []
        self.response_hooks = []
        self.close_hooks = []

    # ---- topology -------------------------------------------------------------------------
    def add_topic(self, name, spec):
        if isinstance(spec, int):
            spec = {"partitions": spec}
        n = spec.get("partitions", 1)
        parts = []
        for p in range(n):
            leader = spec.get("leaders", {}).get(p, p % len(self.nodes))
            parts.append(Partition(name, p, leader, [leader, (leader + 1) % len(self.nodes)]))
        self.topics[name] = Topic(name, parts, spec.get("timestamp_type", 0))
        return self.topics[name]

    def partition(self, topic, index):
        t = self.topics.get(topic)
        if t is None or not 0 <= index < len(t.partitions):
            return None
        return t.partitions[index]

    def resolve(self, host, port):
        return port - 9000

    def host_port(self, node):
        return f"b{node}", 9000 + node

    def describe(self, kind, conn, data):
        if kind == "syn":
            return "connect"
        if kind == "req":
            try:
                api_key, ver, _ = kwire.peek_request_header(data)
                return f"{kwire.API_NAMES.get(api_key, api_key)}"
            except Exception:  # noqa: BLE001
                return "garbage"
        return "resp"

    def digest(self):
        parts = []
        for t in self.topics.values():
            for p in t.partitions:
                parts.append((t.name, p.index, p.leader, p.end, len(p.log), tuple(sorted(p.open_txns.items()))))
        groups = tuple((g.gid, g.state, g.generation, tuple(sorted(g.members)), tuple(sorted(g.offsets.items())))
                       for g in self.groups.values())
        txns = tuple((k, t.state, t.epoch) for k, t in sorted(self.txns.items()))
        return (tuple(parts), groups, txns, tuple(sorted(self.up.items())), len(self.arrivals))

    # ---- connection level -------------------------------------------------------------------
    def on_client_write(self, conn, frame, ev):
        """Called at the instant the client writes a request (before any delivery decision)."""
        for fn in self.write_hooks:
            fn(conn, frame)

    def on_response_delivered(self, conn, frame):
        for fn in self.response_hooks:
            fn(conn, frame)

    def on_connect(self, conn):
        if not self.up.get(conn.node, False):
            return ConnectionRefusedError(f"broker {conn.node} is down")
        if conn.owner in self.isolated:
            return ConnectionRefusedError(f"{conn.owner} is cut off from the cluster")
        return None

    def isolate(self, owner, on=True):
        """Network partition of one client: its connections are reset and new ones refused until healed."""
        if on:
            self.isolated.add(owner)
            for conn in list(self.world.net.conns):
                if conn.owner == owner and not conn.closed:
                    conn.reset()
        else:
            self.isolated.discard(owner)

    def on_conn_closed(self, conn):
        for fn in self.close_hooks:
            fn(conn)
        t = conn.ctx.pop("fetch_timer", None)
        if t is not None:
            t.cancel()
        for topic in self.topics.values():
            for p in topic.partitions:
                p.fetch_waiters = [w for w in p.fetch_waiters if w[0] is not conn]
        for g in self.groups.values():
            g.on_conn_closed(conn)

    def reply(self, conn, req, body, info=None):
        frame = kwire.encode_response(req.api_key, req.version, req.correlation_id, body)
        conn.busy = False
        if self.blackhole:
            return  # cluster mode "silently dropping replies": requests are applied, nothing is ever answered
        if not conn.closed:
            self.world.net.enqueue("resp", conn, frame, info or (kwire.API_NAMES[req.api_key] + "R"))

    def withhold(self, conn):
        conn.busy = True

    def broker_down(self, node):
        self.up[node] = False
        for conn in list(self.world.net.conns):
            if conn.node == node and not conn.closed:
                conn.reset()
        # leadership moves to the next live replica, if any
        for t in self.topics.values():
            for p in t.partitions:
                if p.leader == node:
                    alive = [r for r in p.replicas if self.up.get(r)]
                    p.leader = alive[0] if alive else -1

    def broker_up(self, node):
        self.up[node] = True
        for t in self.topics.values():
            for p in t.partitions:
                if p.leader == -1 and node in p.replicas:
                    p.leader = node

    def move_leader(self, topic, index, to=None):
        p = self.partition(topic, index)
        cands = [n for n in self.nodes if n != p.leader and self.up[n]]
        if to is None:
            to = cands[0]
        p.leader = to
        if to not in p.replicas:
            p.replicas.append(to)
        # followers answer pending fetches with NOT_LEADER implicitly on next request

    # ---- request dispatch -----------------------------------------------------------------------
    def on_request(self, conn, frame, fault=None):
        api_key, ver, corr = kwire.peek_request_header(frame)
        name = kwire.API_NAMES.get(api_key)
        rng = self.versions.get(name)
        if name is None or rng is None or not rng[0] <= ver <= rng[1]:
            # UNSUPPORTED_VERSION: only ApiVersions has a defined reply shape for this
            if name == "ApiVersions":
                body = self._api_versions_body(UNSUPPORTED_VERSION)
                frame_out = kwire.encode_response(18, 0, corr, body)
                self.world.net.enqueue("resp", conn, frame_out, "ApiVersionsR")
                return
            raise RuntimeError(f"client used {name} v{ver} outside the advertised range {rng}")
        req = kwire.decode_request(frame)
        entry = {"seq": len(self.arrivals), "t": self.world.now(), "node": conn.node, "conn": conn.label,
                 "owner": conn.owner, "api": name, "version": ver, "corr": corr, "body": req.body, "fault": fault}
        self.arrivals.append(entry)
        self.world.log("arrive", conn.label, name, ver, fault or "")
        handler = getattr(self, "h_" + name)
        handler(conn, req, entry, fault)

    def _api_versions_body(self, error=NONE):
        keys = []
        for name, (lo, hi) in sorted(self.versions.items(), key=lambda kv: K[kv[0]]):
            keys.append({"api_key": K[name], "min_version": lo, "max_version": hi})
        return {"error_code": error, "api_keys": keys, "throttle_time_ms": 0}

    def h_ApiVersions(self, conn, req, entry, fault):
        self.reply(conn, req, self._api_versions_body())

    # ---- metadata --------------------------------------------------------------------------------
    def h_Metadata(self, conn, req, entry, fault):
        v = req.version
        topics = req.body.get("topics")
        if topics is None or (v == 0 and not topics):
            names = sorted(self.topics)
        else:
            names = [t["name"] for t in topics]
        body = {"throttle_time_ms": 0, "cluster_id": "sim", "controller_id": min((n for n in self.nodes if self.up[n]), default=-1)}
        body["brokers"] = [{"node_id": n, "host": self.host_port(n)[0], "port": self.host_port(n)[1], "rack": None}
                           for n in self.nodes if self.up[n]]
        out = []
        for name in names:
            t = self.topics.get(name)
            if t is None:
                out.append({"error_code": UNKNOWN_TOPIC_OR_PARTITION, "name": name, "is_internal": False, "partitions": []})
                continue
            if not t.authorized:
                out.append({"error_code": TOPIC_AUTHORIZATION_FAILED, "name": name, "is_internal": False, "partitions": []})
                continue
            parts = []
            for p in t.partitions:
                live = [r for r in p.replicas if self.up.get(r)]
                parts.append({"error_code": NONE if p.leader >= 0 else LEADER_NOT_AVAILABLE, "partition_index": p.index,
                              "leader_id": p.leader, "leader_epoch": 0, "replica_nodes": list(p.replicas),
                              "isr_nodes": live, "offline_replicas": [r for r in p.replicas if not self.up.get(r)]})
            out.append({"error_code": NONE, "name": name, "is_internal": False, "partitions": parts})
        body["topics"] = out
        self.reply(conn, req, body)

    def h_FindCoordinator(self, conn, req, entry, fault):
        b = req.body
        code = fault_code(fault)
        if code is None:
            if b.get("key_type", 0) == 1 and not self.txn_authorized:
                code = TRANSACTIONAL_ID_AUTHORIZATION_FAILED
            elif b.get("key_type", 0) == 0 and not self.group_authorized:
                code = GROUP_AUTHORIZATION_FAILED
            elif not self.up.get(self.coordinator, False):
                code = COORDINATOR_NOT_AVAILABLE
            else:
                code = NONE
        if code != NONE:
            self.reply(conn, req, {"error_code": code, "error_message": None, "node_id": -1, "host": "", "port": -1})
            return
        host, port = self.host_port(self.coordinator)
        self.reply(conn, req, {"error_code": NONE, "error_message": None, "node_id": self.coordinator, "host": host, "port": port})

    # ---- produce ----------------------------------------------------------------------------------
    def h_Produce(self, conn, req, entry, fault):
        b = req.body
        acks = b["acks"]
        forced = fault_code(fault)
        responses = []
        entry["parts"] = []
        now_ms = int(self.world.loop.time() * 1000) + 1_600_000_000_000 - 1_000_000
        for td in b["topic_data"]:
            prs = []
            for pd in td["partition_data"]:
                res = self._produce_partition(conn, td["name"], pd["index"], pd["records"], forced, now_ms, b.get("transactional_id"))
                entry["parts"].append(res)
                prs.append({"index": pd["index"], "error_code": res["error"], "base_offset": res["base_offset"],
                            "log_append_time_ms": res["log_append_time"], "log_start_offset": res["log_start"],
                            "record_errors": [], "error_message": None})
            responses.append({"name": td["name"], "partition_responses": prs})
        if acks == 0:
            conn.busy = False
            return
        self.reply(conn, req, {"responses": responses, "throttle_time_ms": 0})

    def _produce_partition(self, conn, topic, index, records, forced, now_ms, transactional_id):
        res = {"topic": topic, "partition": index, "error": NONE, "base_offset": -1, "log_append_time": -1,
               "log_start": -1, "appended": False, "duplicate": False, "batches": []}
        t = self.topics.get(topic)
        p = self.partition(topic, index)
        try:
            batches = krecords.decode(records or b"")
        except krecords.CodecError as e:
            res["error"] = CORRUPT_MESSAGE
            res["decode_error"] = str(e)
            return res
        for bt in batches:
            res["batches"].append({
                "magic": bt.magic, "pid": bt.producer_id, "epoch": bt.producer_epoch, "base_seq": bt.base_sequence,
                "count": len(bt.records), "record_count": bt.record_count, "transactional": bt.is_transactional,
                "crc_ok": bt.crc_ok, "last_offset_delta": bt.last_offset - bt.base_offset,
                "records": [(r.key, r.value, r.timestamp, tuple((k, v) for k, v in (r.headers or []))) for r in bt.records],
            })
        applies_anyway = forced in (NOT_ENOUGH_REPLICAS_AFTER_APPEND, REQUEST_TIMED_OUT)
        if forced is not None and not applies_anyway:
            res["error"] = forced
            return res
        if t is None or p is None:
            res["error"] = UNKNOWN_TOPIC_OR_PARTITION
            return res
        if not t.authorized:
            res["error"] = TOPIC_AUTHORIZATION_FAILED
            return res
        if p.leader != conn.node:
            res["error"] = NOT_LEADER
            return res
        res["log_start"] = p.log_start
        first_base = None
        for bt in batches:
            if not bt.crc_ok:
                res["error"] = CORRUPT_MESSAGE
                return res
            code, base = self._append_batch(p, t, bt, now_ms, res)
            if code != NONE:
                res["error"] = code
                return res
            if first_base is None:
                first_base = base
        res["base_offset"] = first_base if first_base is not None else -1
        if t.timestamp_type == 1:
            res["log_append_time"] = res.get("dup_ts", now_ms)
        if applies_anyway:
            res["error"] = forced
            res["base_offset"] = -1
        return res

    def _append_batch(self, p, t, bt, now_ms, res):
        pid = bt.producer_id
        n = len(bt.records)
        if pid >= 0:
            cur_epoch = self.pid_epochs.get(pid)
            st = p.producers.get(pid)
            if cur_epoch is None:
                return INVALID_PRODUCER_ID_MAPPING if bt.is_transactional else OUT_OF_ORDER_SEQUENCE_NUMBER, -1
            if (st is not None and bt.producer_epoch < st["epoch"]) or (bt.is_transactional and bt.producer_epoch < cur_epoch):
                return INVALID_PRODUCER_EPOCH, -1
            last_seq = seq_add(bt.base_sequence, n - 1) if n else bt.base_sequence
            if st is not None and st["epoch"] == bt.producer_epoch:
                for (bs, ls, bo, ts) in st["recent"]:
                    if bs == bt.base_sequence and ls == last_seq:
                        res["duplicate"] = True
                        res["dup_ts"] = ts  # Kafka answers a duplicate from the retained BatchMetadata (original offset and timestamp)
                        return NONE, bo
                in_seq = bt.base_sequence == st["last_seq"] + 1 or (bt.base_sequence == 0 and st["last_seq"] == INT32_MAX)
                if not in_seq:
                    return OUT_OF_ORDER_SEQUENCE_NUMBER, -1
            else:
                if bt.base_sequence != 0:
                    return OUT_OF_ORDER_SEQUENCE_NUMBER, -1
                st = p.producers[pid] = {"epoch": bt.producer_epoch, "last_seq": -1, "recent": []}
        base = p.end
        raw = krecords.rebase(bt.raw, base, now_ms if t.timestamp_type == 1 else None)
        stored = krecords.decode_batch(raw)
        p.append_raw(raw, stored)
        res["appended"] = True
        if pid >= 0:
            st = p.producers[pid]
            st["epoch"] = bt.producer_epoch
            st["last_seq"] = last_seq
            st["recent"].append((bt.base_sequence, last_seq, base, now_ms))
            del st["recent"][:-5]
            if bt.is_transactional:
                p.open_txns.setdefault(pid, base)
        self.journal.append(("append", self.world.now(), p.topic, p.index, base, stored.last_offset, pid, bt.producer_epoch, bt.base_sequence))
        self._wake_fetchers(p)
        return NONE, base

    def seed_producer_state(self, topic, index, pid, epoch, last_seq):
        """Used by scenarios that start a producer's sequence counter at a chosen value."""
        p = self.partition(topic, index)
        p.producers[pid] = {"epoch": epoch, "last_seq": last_seq, "recent": []}

    def write_marker(self, p, pid, epoch, commit):
        """Transaction marker append (coordinator -> partition leader)."""
        base = p.end
        now_ms = int(self.world.loop.time() * 1000)
        raw = krecords.control_batch(base, pid, epoch, commit, now_ms)
        p.append_raw(raw, krecords.decode_batch(raw))
        first = p.open_txns.pop(pid, None)
        if not commit and first is not None:
            p.aborted.append((pid, first, base))
        st = p.producers.setdefault(pid, {"epoch": epoch, "last_seq": -1, "recent": []})
        if epoch > st["epoch"]:
            st["epoch"] = epoch
            st["last_seq"] = -1
            st["recent"] = []
        self.journal.append(("marker", self.world.now(), p.topic, p.index, base, pid, epoch, commit))
        self._wake_fetchers(p)

    def preload(self, topic, index, raw_batches):
        """Put pre-built batches (any magic) into a partition log; offsets are assigned consecutively."""
        p = self.partition(topic, index)
        for raw in raw_batches:
            raw = krecords.rebase(raw, p.end)
            for b in krecords.decode(raw):
                p.append_raw(b.raw, b)

    def preload_exact(self, topic, index, raw):
        """Store batches keeping the offsets they carry (for compaction gaps)."""
        p = self.partition(topic, index)
        for b in krecords.decode(raw):
            p.append_raw(b.raw, b)

    # ---- fetch ----------------------------------------------------------------------------------------
    def h_Fetch(self, conn, req, entry, fault):
        forced = fault_code(fault)
        body, any_data, any_error = self._fetch_body(conn, req, forced)
        if any_data or any_error or req.body.get("max_wait_ms", 0) <= 0:
            self.reply(conn, req, body)
            return
        # long poll in virtual time
        self.withhold(conn)
        loop = self.world.loop

        def fire():
            conn.ctx.pop("fetch_timer", None)
            self._drop_waiter(conn)
            if conn.closed:
                return
            body2, _, _ = self._fetch_body(conn, req, None)
            self.reply(conn, req, body2)

        conn.ctx["fetch_timer"] = loop.call_later(req.body["max_wait_ms"] / 1000.0, fire)
        conn.ctx["fetch_fire"] = fire
        for td in req.body["topics"]:
            for pd in td["partitions"]:
                p = self.partition(td["topic"], pd["partition"])
                if p is not None:
                    p.fetch_waiters.append((conn, fire))

    def _drop_waiter(self, conn):
        for t in self.topics.values():
            for p in t.partitions:
                p.fetch_waiters = [w for w in p.fetch_waiters if w[0] is not conn]

    def _wake_fetchers(self, p):
        for conn, fire in list(p.fetch_waiters):
            t = conn.ctx.pop("fetch_timer", None)
            if t is not None:
                t.cancel()
                # answered in a separate loop step, as a broker thread would
                self.world.loop.call_soon(fire)
        p.fetch_waiters = []

    def _fetch_body(self, conn, req, forced):
        v = req.version
        b = req.body
        committed = b.get("isolation_level", 0) == 1
        any_data = False
        any_error = False
        responses = []
        for td in b["topics"]:
            prs = []
            for pd in td["partitions"]:
                pr = kwire.default_struct(1, v, "response", "responses.partitions")
                pr["partition_index"] = pd["partition"]
                pr["records"] = b""
                p = self.partition(td["topic"], pd["partition"])
                t = self.topics.get(td["topic"])
                off = pd["fetch_offset"]
                if forced is not None:
                    pr["error_code"] = forced
                    pr["high_watermark"] = -1
                elif p is None:
                    pr["error_code"] = UNKNOWN_TOPIC_OR_PARTITION
                    pr["high_watermark"] = -1
                elif not t.authorized:
                    pr["error_code"] = TOPIC_AUTHORIZATION_FAILED
                    pr["high_watermark"] = -1
                elif p.leader != conn.node:
                    pr["error_code"] = NOT_LEADER
                    pr["high_watermark"] = -1
                elif off < p.log_start or off > p.end:
                    pr["error_code"] = OFFSET_OUT_OF_RANGE
                    pr["high_watermark"] = p.end
                    pr["last_stable_offset"] = p.lso
                    pr["log_start_offset"] = p.log_start
                else:
                    limit = p.lso if committed else p.end
                    chosen = [s for s in p.log if s.last >= off and s.base < limit]
                    if self.fetch_batch_limit is not None:
                        chosen = chosen[:self.fetch_batch_limit]
                    pr["records"] = b"".join(s.raw for s in chosen)
                    pr["high_watermark"] = p.end
                    pr["last_stable_offset"] = p.lso
                    pr["log_start_offset"] = p.log_start
                    if committed:
                        upper = chosen[-1].last + 1 if chosen else off
                        pr["aborted_transactions"] = [
                            {"producer_id": pid, "first_offset": first}
                            for (pid, first, marker) in p.aborted if marker >= off and first < upper]
                    else:
                        pr["aborted_transactions"] = None
                    if chosen:
                        any_data = True
                if pr["error_code"] != NONE:
                    any_error = True
                prs.append(pr)
            responses.append({"topic": td["topic"], "partitions": prs})
        return {"throttle_time_ms": 0, "error_code": NONE, "session_id": 0, "responses": responses}, any_data, any_error

    # ---- list offsets ------------------------------------------------------------------------------------
    def h_ListOffsets(self, conn, req, entry, fault):
        v = req.version
        b = req.body
        forced = fault_code(fault)
        committed = b.get("isolation_level", 0) == 1
        topics = []
        for td in b["topics"]:
            prs = []
            for pd in td["partitions"]:
                pr = {"partition_index": pd["partition_index"], "error_code": NONE, "old_style_offsets": [],
                      "timestamp": -1, "offset": -1, "leader_epoch": -1}
                p = self.partition(td["name"], pd["partition_index"])
                if forced is not None:
                    pr["error_code"] = forced
                elif p is None:
                    pr["error_code"] = UNKNOWN_TOPIC_OR_PARTITION
                elif not self.topics[td["name"]].authorized:
                    pr["error_code"] = TOPIC_AUTHORIZATION_FAILED
                elif p.leader != conn.node:
                    pr["error_code"] = NOT_LEADER
                else:
                    ts = pd["timestamp"]
                    end = p.lso if committed else p.end
                    if ts == -1:
                        off, rts = end, -1
                    elif ts == -2:
                        off, rts = p.log_start, -1
                    else:
                        off, rts = -1, -1
                        for s in p.log:
                            for r in s.batch.records:
                                if r.offset < end and r.timestamp is not None and r.timestamp >= ts and not s.batch.is_control:
                                    off, rts = r.offset, r.timestamp
                                    break
                            if off >= 0:
                                break
                    pr["offset"], pr["timestamp"] = off, rts
                    pr["old_style_offsets"] = [off] if off >= 0 else []
                prs.append(pr)
            topics.append({"name": td["name"], "partitions": prs})
        self.reply(conn, req, {"throttle_time_ms": 0, "topics": topics})

    # ---- idempotent / transactional producer ---------------------------------------------------------------
    def is_coordinator(self, conn):
        return conn.node == self.coordinator

    def h_InitProducerId(self, conn, req, entry, fault):
        b = req.body
        tid = b.get("transactional_id")
        forced = fault_code(fault)
        out = {"throttle_time_ms": 0, "error_code": NONE, "producer_id": -1, "producer_epoch": -1}
        if forced is not None:
            out["error_code"] = forced
        elif tid is None:
            pid = self.next_pid
            self.next_pid += 1
            self.pid_epochs[pid] = 0
            out["producer_id"], out["producer_epoch"] = pid, 0
        elif not self.txn_authorized:
            out["error_code"] = TRANSACTIONAL_ID_AUTHORIZATION_FAILED
        elif not self.is_coordinator(conn):
            out["error_code"] = NOT_COORDINATOR
        elif self.coordinator_loading:
            out["error_code"] = COORDINATOR_LOAD_IN_PROGRESS
        else:
            st = self.txns.get(tid)
            if st is None:
                st = self.txns[tid] = TxnState(self, tid, self.next_pid)
                self.next_pid += 1
                self.pid_epochs[st.pid] = 0
                st.epoch = 0
                out["producer_id"], out["producer_epoch"] = st.pid, st.epoch
            else:
                code = st.init_producer()
                out["error_code"] = code
                if code == NONE:
                    out["producer_id"], out["producer_epoch"] = st.pid, st.epoch
            entry["txn_state"] = st.state
        self.reply(conn, req, out)

    def _txn_check(self, conn, b, forced):
        if forced is not None:
            return forced, None
        if not self.txn_authorized:
            return TRANSACTIONAL_ID_AUTHORIZATION_FAILED, None
        if not self.is_coordinator(conn):
            return NOT_COORDINATOR, None
        if self.coordinator_loading:
            return COORDINATOR_LOAD_IN_PROGRESS, None
        st = self.txns.get(b["transactional_id"])
        if st is None or st.pid != b["producer_id"]:
            return INVALID_PRODUCER_ID_MAPPING, None
        if b["producer_epoch"] != st.epoch:
            return INVALID_PRODUCER_EPOCH, None
        if st.state in ("PrepareCommit", "PrepareAbort"):
            return CONCURRENT_TRANSACTIONS, st
        return NONE, st

    def h_AddPartitionsToTxn(self, conn, req, entry, fault):
        b = req.body
        code, st = self._txn_check(conn, b, fault_code(fault))
        results = []
        unauthorized = False
        if code == NONE:
            for td in b["topics"]:
                t = self.topics.get(td["name"])
                if t is not None and not t.authorized:
                    unauthorized = True
        for td in b["topics"]:
            prs = []
            t = self.topics.get(td["name"])
            for p in td["partitions"]:
                c = code
                if c == NONE:
                    if t is None or self.partition(td["name"], p) is None:
                        c = UNKNOWN_TOPIC_OR_PARTITION
                    elif not t.authorized:
                        c = TOPIC_AUTHORIZATION_FAILED
                    elif unauthorized:
                        c = 55  # OPERATION_NOT_ATTEMPTED
                prs.append({"partition_index": p, "error_code": c})
            results.append({"name": td["name"], "results": prs})
        ok = code == NONE and all(r["error_code"] == NONE for tr in results for r in tr["results"])
        if ok:
            for td in b["topics"]:
                for p in td["partitions"]:
                    st.partitions.add((td["name"], p))
            st.state = "Ongoing"
            self.journal.append(("txn-add-partitions", self.world.now(), st.tid, st.epoch, sorted(st.partitions)))
        entry["ok"] = ok
        self.reply(conn, req, {"throttle_time_ms": 0, "results": results})

    def h_AddOffsetsToTxn(self, conn, req, entry, fault):
        b = req.body
        code, st = self._txn_check(conn, b, fault_code(fault))
        if code == NONE and not self.group_authorized:
            code = GROUP_AUTHORIZATION_FAILED
        if code == NONE:
            st.groups.add(b["group_id"])
            st.state = "Ongoing"
            self.journal.append(("txn-add-offsets", self.world.now(), st.tid, st.epoch, b["group_id"]))
        entry["ok"] = code == NONE
        self.reply(conn, req, {"throttle_time_ms": 0, "error_code": code})

    def h_TxnOffsetCommit(self, conn, req, entry, fault):
        b = req.body
        forced = fault_code(fault)
        code = NONE
        if forced is not None:
            code = forced
        elif not self.group_authorized:
            code = GROUP_AUTHORIZATION_FAILED
        elif not self.is_coordinator(conn):
            code = NOT_COORDINATOR
        elif self.coordinator_loading:
            code = COORDINATOR_LOAD_IN_PROGRESS
        else:
            st = self.txns.get(b["transactional_id"])
            if st is None or st.pid != b["producer_id"]:
                code = INVALID_PRODUCER_ID_MAPPING
            elif b["producer_epoch"] != st.epoch:
                code = INVALID_PRODUCER_EPOCH
        topics = []
        for td in b["topics"]:
            prs = []
            for pd in td["partitions"]:
                prs.append({"partition_index": pd["partition_index"], "error_code": code})
                if code == NONE:
                    g = self.group(b["group_id"])
                    g.pending_txn_offsets.setdefault(b["producer_id"], {})[(td["name"], pd["partition_index"])] = pd["committed_offset"]
            topics.append({"name": td["name"], "partitions": prs})
        if code == NONE:
            st.offsets_group_written.add(b["group_id"])
            self.journal.append(("txn-offset-commit", self.world.now(), b["transactional_id"], b["group_id"]))
        entry["ok"] = code == NONE
        self.reply(conn, req, {"throttle_time_ms": 0, "topics": topics})

    def h_EndTxn(self, conn, req, entry, fault):
        b = req.body
        code, st = self._txn_check(conn, b, fault_code(fault))
        if code == NONE:
            code = st.end(b["committed"])
        entry["ok"] = code == NONE
        self.reply(conn, req, {"throttle_time_ms": 0, "error_code": code})

    def marker_alts(self, world, quiescent):
        """Marker writing is a separate environment step (so CONCURRENT_TRANSACTIONS windows exist)."""
        out = []
        for tid, st in sorted(self.txns.items()):
            if st.state in ("PrepareCommit", "PrepareAbort") and st.markers_pending:
                tp = st.markers_pending[0]
                out.append(Alt(f"marker:{tid}:{tp[0]}-{tp[1]}", "d", lambda st=st: st.write_next_marker()))
        return out

    # ---- groups -----------------------------------------------------------------------------------------------
    def group(self, gid):
        g = self.groups.get(gid)
        if g is None:
            g = self.groups[gid] = Group(self, gid)
        return g

    def _group_pre(self, conn, forced):
        if forced is not None:
            return forced
        if not self.group_authorized:
            return GROUP_AUTHORIZATION_FAILED
        if not self.is_coordinator(conn):
            return NOT_COORDINATOR
        if self.coordinator_loading:
            return COORDINATOR_LOAD_IN_PROGRESS
        return NONE

    def h_JoinGroup(self, conn, req, entry, fault):
        code = self._group_pre(conn, fault_code(fault))
        if code != NONE:
            self.reply(conn, req, {"error_code": code, "generation_id": -1, "protocol_name": "", "leader": "",
                                   "member_id": req.body.get("member_id", ""), "members": []})
            return
        self.group(req.body["group_id"]).join(conn, req, entry)

    def h_SyncGroup(self, conn, req, entry, fault):
        code = self._group_pre(conn, fault_code(fault))
        if code != NONE:
            self.reply(conn, req, {"error_code": code, "assignment": b""})
            return
        self.group(req.body["group_id"]).sync(conn, req, entry)

    def h_Heartbeat(self, conn, req, entry, fault):
        code = self._group_pre(conn, fault_code(fault))
        if code == NONE:
            code = self.group(req.body["group_id"]).heartbeat(req.body)
        entry["code"] = code
        self.reply(conn, req, {"error_code": code})

    def h_LeaveGroup(self, conn, req, entry, fault):
        code = self._group_pre(conn, fault_code(fault))
        if code == NONE:
            code = self.group(req.body["group_id"]).leave(req.body["member_id"])
        entry["code"] = code
        self.reply(conn, req, {"error_code": code})

    def h_OffsetCommit(self, conn, req, entry, fault):
        b = req.body
        code = self._group_pre(conn, fault_code(fault))
        g = self.group(b["group_id"])
        if code == NONE:
            code = g.check_commit(b.get("generation_id", -1), b.get("member_id", ""))
        topics = []
        for td in b["topics"]:
            prs = []
            for pd in td["partitions"]:
                c = code
                if c == NONE:
                    t = self.topics.get(td["name"])
                    if t is not None and not t.authorized:
                        c = TOPIC_AUTHORIZATION_FAILED
                    else:
                        g.offsets[(td["name"], pd["partition_index"])] = (pd["committed_offset"], pd.get("committed_metadata"))
                        g.commit_log.append((self.world.now(), b.get("member_id", ""), b.get("generation_id", -1),
                                             td["name"], pd["partition_index"], pd["committed_offset"], entry["seq"]))
                prs.append({"partition_index": pd["partition_index"], "error_code": c})
            topics.append({"name": td["name"], "partitions": prs})
        entry["code"] = code
        self.reply(conn, req, {"throttle_time_ms": 0, "topics": topics})

    def h_OffsetFetch(self, conn, req, entry, fault):
        b = req.body
        code = self._group_pre(conn, fault_code(fault))
        g = self.group(b["group_id"])
        topics = []
        want = b.get("topics")
        if want is None:
            by_topic = {}
            for (tn, pi) in sorted(g.offsets):
                by_topic.setdefault(tn, []).append(pi)
            want = [{"name": tn, "partition_indexes": ps} for tn, ps in by_topic.items()]
        for td in want:
            prs = []
            for pi in td["partition_indexes"]:
                off, meta = g.offsets.get((td["name"], pi), (-1, ""))
                pc = NONE
                if code != NONE:
                    off, meta, pc = -1, "", code
                prs.append({"partition_index": pi, "committed_offset": off, "metadata": meta or "", "error_code": pc})
            topics.append({"name": td["name"], "partitions": prs})
        entry["returned"] = {(t["name"], p["partition_index"]): p["committed_offset"] for t in topics for p in t["partitions"]}
        self.reply(conn, req, {"throttle_time_ms": 0, "topics": topics, "error_code": code if req.version >= 2 else NONE})

    def h_SaslHandshake(self, conn, req, entry, fault):
        mech = req.body["mechanism"]
        ok = self.sasl is not None and mech in self.sasl["mechanisms"]
        self.reply(conn, req, {"error_code": NONE if ok else 33, "mechanisms": list(self.sasl["mechanisms"]) if self.sasl else []})

    # ---- fault alternatives ---------------------------------------------------------------------------------------
    def fault_alts(self, world, heads):
        out = []
        if not self.faults_enabled:
            return out
        kinds = self.fault_kinds
        for ev in heads:
            lab = f"{ev.conn.label}:{ev.info}"
            api = ev.info[:-1] if ev.kind == "resp" else ev.info
            if self.fault_apis is not None and api not in self.fault_apis:
                continue
            if ev.kind == "req":
                if "drop-before" in kinds:
                    out.append(Alt(f"drop-before:{lab}", "f", lambda ev=ev: ev.conn.reset()))
                if "err" in kinds:
                    for code in self.err_codes.get(api, ()):
                        out.append(Alt(f"err{code}:{lab}", "f", lambda ev=ev, code=code: self._deliver_with_fault(ev, code)))
            elif ev.kind == "resp":
                if "drop-after" in kinds:
                    out.append(Alt(f"drop-after:{lab}", "f", lambda ev=ev: ev.conn.reset()))
                if "lose" in kinds:
                    out.append(Alt(f"lose:{lab}", "f", lambda ev=ev: self._lose(world, ev)))
            elif ev.kind == "syn" and "refuse" in kinds:
                out.append(Alt(f"refuse:{lab}", "f", lambda ev=ev: self._refuse(ev)))
        return out

    def _lose(self, world, ev):
        # TCP never drops one reply and delivers the next: a reply that is never delivered means the connection has stalled.
        # Nothing further reaches the client on it until the client gives up (request timeout) and closes it.
        world.net.take(ev)
        ev.conn.stalled = True

    def _deliver_with_fault(self, ev, code):
        self.world.net.take(ev)
        self.on_request(ev.conn, ev.data, fault=("err", code))

    def _refuse(self, ev):
        self.world.net.take(ev)
        if not ev.data.cancelled():
            ev.data.set_exception(ConnectionRefusedError("simulated refusal"))


def fault_code(fault):
    if fault is not None and fault[0] == "err":
        return fault[1]
    return None


class TxnState:
    """Transaction coordinator state for one transactional id (DESIGN Appendix A)."""

    def __init__(self, cluster, tid, pid):
        self.cluster = cluster
        self.tid = tid
        self.pid = pid
        self.epoch = -1
        self.state = "Empty"
        self.partitions = set()
        self.groups = set()
        self.offsets_group_written = set()
        self.markers_pending = []
        self.pending_commit = None
        self.last_result = None
        self.history = []  # (time, epoch, result, partitions, groups)

    def init_producer(self):
        c = self.cluster
        if self.state in ("PrepareCommit", "PrepareAbort"):
            return CONCURRENT_TRANSACTIONS
        if self.state == "Ongoing":
            # fence the old incarnation and abort its transaction
            self.epoch += 1
            c.pid_epochs[self.pid] = self.epoch
            self._prepare(False)
            return CONCURRENT_TRANSACTIONS
        self.epoch += 1
        c.pid_epochs[self.pid] = self.epoch
        self.state = "Empty"
        return NONE

    def end(self, commit):
        if self.state == "Ongoing":
            self._prepare(commit)
            return NONE
        if self.state in ("CompleteCommit", "CompleteAbort") and self.last_result == commit:
            return NONE  # retried EndTxn matching the last result
        return INVALID_TXN_STATE

    def _prepare(self, commit):
        self.state = "PrepareCommit" if commit else "PrepareAbort"
        self.pending_commit = commit
        self.markers_pending = sorted(self.partitions)
        self.cluster.journal.append(("txn-prepare", self.cluster.world.now(), self.tid, self.epoch, commit,
                                     sorted(self.partitions), sorted(self.groups)))
        if not self.markers_pending:
            self._complete()

    def write_next_marker(self):
        tp = self.markers_pending.pop(0)
        p = self.cluster.partition(*tp)
        self.cluster.write_marker(p, self.pid, self.epoch, self.pending_commit)
        if not self.markers_pending:
            self._complete()

    def _complete(self):
        commit = self.pending_commit
        for gid in self.groups:
            g = self.cluster.group(gid)
            pend = g.pending_txn_offsets.pop(self.pid, {})
            if commit:
                for tp, off in pend.items():
                    g.offsets[tp] = (off, "")
                    g.commit_log.append((self.cluster.world.now(), f"txn:{self.tid}", -1, tp[0], tp[1], off, -1))
        self.history.append((self.cluster.world.now(), self.epoch, commit, sorted(self.partitions), sorted(self.groups)))
        self.cluster.journal.append(("txn-complete", self.cluster.world.now(), self.tid, self.epoch, commit))
        self.state = "CompleteCommit" if commit else "CompleteAbort"
        self.last_result = commit
        self.partitions = set()
        self.groups = set()
        self.pending_commit = None


class Member:
    def __init__(self, mid, conn_owner):
        self.mid = mid
        self.owner = conn_owner
        self.protocols = []  # [(name, metadata bytes)]
        self.session_timeout = 0
        self.rebalance_timeout = 0
        self.session_timer = None
        self.join = None  # (conn, req) withheld JoinGroup
        self.sync = None  # (conn, req) withheld SyncGroup
        self.assignment = b""


class Group:
    """Group coordinator state machine (DESIGN Appendix A)."""

    def __init__(self, cluster, gid):
        self.cluster = cluster
        self.gid = gid
        self.state = "Empty"
        self.generation = 0
        self.members = {}
        self.pending_ids = set()  # ids handed out with MEMBER_ID_REQUIRED, not yet joined
        self.leader = None
        self.protocol = None
        self.protocol_type = None
        self.offsets = {}
        self.pending_txn_offsets = {}
        self.commit_log = []
        self.next_id = 0
        self.rebalance_timer = None
        self.history = []  # (time, generation, protocol, leader, {member: metadata}, {member: assignment} filled at sync)
        self.events = []

    def _ev(self, *a):
        self.events.append((self.cluster.world.now(),) + a)
        self.cluster.journal.append(("group", self.cluster.world.now(), self.gid) + a)

    # -- session timers --
    def _arm_session(self, m):
        if m.session_timer is not None:
            m.session_timer.cancel()
        m.session_timer = self.cluster.world.loop.call_later(m.session_timeout / 1000.0, self._expire, m.mid)

    def _disarm(self, m):
        if m.session_timer is not None:
            m.session_timer.cancel()
            m.session_timer = None

    def _expire(self, mid):
        m = self.members.get(mid)
        if m is None:
            return
        m.session_timer = None
        self._ev("session-expired", mid)
        self._remove(mid)

    def _remove(self, mid):
        m = self.members.pop(mid, None)
        if m is None:
            return
        self._disarm(m)
        for pend, shape in ((m.join, "join"), (m.sync, "sync")):
            if pend is not None:
                conn, req = pend
                if shape == "join":
                    self.cluster.reply(conn, req, self._join_body(UNKNOWN_MEMBER_ID, req.body.get("member_id", "")))
                else:
                    self.cluster.reply(conn, req, {"error_code": UNKNOWN_MEMBER_ID, "assignment": b""})
        m.join = m.sync = None
        if not self.members:
            self._cancel_rebalance_timer()
            self.state = "Empty"
            self.generation += 1
            self.leader = None
            self._ev("empty", self.generation)
            return
        if self.state in ("Stable", "CompletingRebalance"):
            self._prepare_rebalance()
        elif self.state == "PreparingRebalance":
            self._maybe_complete_join()

    def on_conn_closed(self, conn):
        for m in self.members.values():
            if m.join is not None and m.join[0] is conn:
                m.join = None
                self._arm_session(m)
            if m.sync is not None and m.sync[0] is conn:
                m.sync = None

    def _join_body(self, code, member_id, generation=-1, protocol="", leader="", members=()):
        return {"throttle_time_ms": 0, "error_code": code, "generation_id": generation, "protocol_name": protocol,
                "leader": leader, "member_id": member_id, "members": list(members)}

    # -- join --
    def join(self, conn, req, entry):
        b = req.body
        c = self.cluster
        mid = b["member_id"]
        st = b["session_timeout_ms"]
        protocols = [(p["name"], p["metadata"]) for p in b["protocols"]]
        entry["protocols"] = [p[0] for p in protocols]
        if mid and mid not in self.members and mid not in self.pending_ids:
            c.reply(conn, req, self._join_body(UNKNOWN_MEMBER_ID, mid))
            entry["code"] = UNKNOWN_MEMBER_ID
            return
        if self.members and self.protocol_type is not None and b["protocol_type"] != self.protocol_type:
            c.reply(conn, req, self._join_body(INCONSISTENT_GROUP_PROTOCOL, mid))
            entry["code"] = INCONSISTENT_GROUP_PROTOCOL
            return
        if self.members:
            names = {p[0] for p in protocols}
            common = set.intersection(*[{p[0] for p in m.protocols} for k, m in self.members.items() if k != mid] or [names])
            if not (names & common):
                c.reply(conn, req, self._join_body(INCONSISTENT_GROUP_PROTOCOL, mid))
                entry["code"] = INCONSISTENT_GROUP_PROTOCOL
                return
        if not mid:
            self.next_id += 1
            new_id = f"{b.get('_client', conn.owner)}-m{self.next_id}"
            if req.version >= 4 and b.get("group_instance_id") is None:
                self.pending_ids.add(new_id)
                c.reply(conn, req, self._join_body(MEMBER_ID_REQUIRED, new_id))
                entry["code"] = MEMBER_ID_REQUIRED
                entry["assigned_id"] = new_id
                return
            mid = new_id
        self.pending_ids.discard(mid)
        m = self.members.get(mid)
        is_new = m is None
        if is_new:
            m = self.members[mid] = Member(mid, conn.owner)
        changed = is_new or m.protocols != protocols
        m.protocols = protocols
        m.session_timeout = st
        m.rebalance_timeout = b.get("rebalance_timeout_ms", -1) if req.version >= 1 else st
        if m.rebalance_timeout is None or m.rebalance_timeout < 0:
            m.rebalance_timeout = st
        self.protocol_type = b["protocol_type"]
        entry["member"] = mid
        if self.state == "Stable" and not changed and mid != self.leader:
            # known follower, unchanged metadata: answered at once with the current generation
            self._arm_session(m)
            c.reply(conn, req, self._join_body(NONE, mid, self.generation, self.protocol, self.leader, []))
            entry["code"] = NONE
            entry["generation"] = self.generation
            return
        if m.join is not None and m.join[0] is not conn:
            pass  # an older withheld join on a dead connection is simply replaced
        m.join = (conn, req)
        m.join_entry = entry
        self._disarm(m)  # session clock is suspended while the join is parked
        c.withhold(conn)
        if self.state in ("Empty", "Stable", "CompletingRebalance"):
            self._prepare_rebalance()
        else:
            self._maybe_complete_join()

    def _prepare_rebalance(self):
        # SyncGroups parked for the superseded generation are answered REBALANCE_IN_PROGRESS
        for m in self.members.values():
            if m.sync is not None:
                conn, req = m.sync
                m.sync = None
                self.cluster.reply(conn, req, {"error_code": REBALANCE_IN_PROGRESS, "assignment": b""})
        self.state = "PreparingRebalance"
        self._ev("preparing", self.generation)
        self._cancel_rebalance_timer()
        timeout = max((m.rebalance_timeout for m in self.members.values()), default=0)
        self.rebalance_timer = self.cluster.world.loop.call_later(timeout / 1000.0, self._rebalance_timeout)
        self._maybe_complete_join()

    def _cancel_rebalance_timer(self):
        if self.rebalance_timer is not None:
            self.rebalance_timer.cancel()
            self.rebalance_timer = None

    def _rebalance_timeout(self):
        self.rebalance_timer = None
        if self.state != "PreparingRebalance":
            return
        for mid in [k for k, m in self.members.items() if m.join is None]:
            self._ev("dropped-not-rejoined", mid)
            m = self.members.pop(mid)
            self._disarm(m)
        if not self.members:
            self.state = "Empty"
            self.generation += 1
            self._ev("empty", self.generation)
            return
        self._complete_join()

    def _maybe_complete_join(self):
        if self.state == "PreparingRebalance" and self.members and all(m.join is not None for m in self.members.values()):
            self._complete_join()

    def _complete_join(self):
        c = self.cluster
        self._cancel_rebalance_timer()
        self.generation += 1
        # protocol: supported by all, most votes (each member votes for its first supported choice)
        common = set.intersection(*[{p[0] for p in m.protocols} for m in self.members.values()])
        votes = {}
        for m in self.members.values():
            for name, _ in m.protocols:
                if name in common:
                    votes[name] = votes.get(name, 0) + 1
                    break
        first_order = [name for m in self.members.values() for name, _ in m.protocols if name in common]
        self.protocol = max(votes, key=lambda n: (votes[n], -first_order.index(n)))
        if self.leader not in self.members:
            self.leader = next(iter(self.members))
        self.state = "CompletingRebalance"
        metas = {mid: dict(m.protocols)[self.protocol] for mid, m in self.members.items()}
        self.history.append({"t": c.world.now(), "generation": self.generation, "protocol": self.protocol,
                             "leader": self.leader, "members": metas, "assignments": None})
        self._ev("completing", self.generation, self.protocol, self.leader, sorted(self.members))
        for mid, m in list(self.members.items()):
            conn, req = m.join
            m.join = None
            members = []
            if mid == self.leader:
                members = [{"member_id": k, "group_instance_id": None, "metadata": metas[k]} for k in self.members]
            m.join_entry["code"] = NONE
            m.join_entry["generation"] = self.generation
            m.join_entry["replied_at"] = c.world.now()
            self._arm_session(m)
            c.reply(conn, req, self._join_body(NONE, mid, self.generation, self.protocol, self.leader, members))

    # -- sync --
    def sync(self, conn, req, entry):
        b = req.body
        c = self.cluster
        mid = b["member_id"]
        entry["member"] = mid
        m = self.members.get(mid)
        if m is None:
            code = UNKNOWN_MEMBER_ID
        elif b["generation_id"] != self.generation:
            code = ILLEGAL_GENERATION
        elif self.state == "PreparingRebalance":
            code = REBALANCE_IN_PROGRESS
        elif self.state == "Empty":
            code = UNKNOWN_MEMBER_ID
        else:
            code = NONE
        entry["code"] = code
        if code != NONE:
            c.reply(conn, req, {"error_code": code, "assignment": b""})
            return
        self._arm_session(m)
        if self.state == "Stable":
            c.reply(conn, req, {"error_code": NONE, "assignment": m.assignment})
            return
        m.sync = (conn, req)
        c.withhold(conn)
        if mid == self.leader:
            given = {a["member_id"]: a["assignment"] for a in b["assignments"]}
            for k, mm in self.members.items():
                mm.assignment = given.get(k, b"")
            self.history[-1]["assignments"] = {k: mm.assignment for k, mm in self.members.items()}
            self.state = "Stable"
            self._ev("stable", self.generation)
            for k, mm in self.members.items():
                if mm.sync is not None:
                    cn, rq = mm.sync
                    mm.sync = None
                    c.reply(cn, rq, {"error_code": NONE, "assignment": mm.assignment})

    # -- heartbeat / leave / commit --
    def heartbeat(self, b):
        m = self.members.get(b["member_id"])
        if m is None:
            return UNKNOWN_MEMBER_ID
        if b["generation_id"] != self.generation:
            return ILLEGAL_GENERATION
        if self.state == "Empty":
            return UNKNOWN_MEMBER_ID
        self._arm_session(m)
        if self.state == "PreparingRebalance":
            return REBALANCE_IN_PROGRESS
        if self.state == "CompletingRebalance":
            return self.cluster.heartbeat_in_completing
        return NONE

    def leave(self, mid):
        if mid not in self.members:
            return UNKNOWN_MEMBER_ID
        self._ev("leave", mid)
        self._remove(mid)
        return NONE

    def check_commit(self, generation, mid):
        if generation < 0 and not mid:
            return NONE if self.state == "Empty" else UNKNOWN_MEMBER_ID
        m = self.members.get(mid)
        if m is None:
            return UNKNOWN_MEMBER_ID
        if generation != self.generation:
            return ILLEGAL_GENERATION
        if self.state == "CompletingRebalance":
            return REBALANCE_IN_PROGRESS
        self._arm_session(m)
        return NONE

    def lose_state(self):
        """Coordinator moved without membership state: members forgotten, offsets survive."""
        for m in list(self.members.values()):
            self._disarm(m)
            m.join = m.sync = None
        self.members.clear()
        self.pending_ids.clear()  # ids handed out with MEMBER_ID_REQUIRED are membership state too
        self._cancel_rebalance_timer()
        self.state = "Empty"
        self.generation += 1
        self.leader = None
        self._ev("state-lost", self.generation)
