"""E1 - virtual-time asyncio event loop with in-memory transports and task ownership.

The loop has no selector.  `_ready` and `_scheduled` are stepped by hand by the explorer
(vf.explore).  time.monotonic()/time.time() are replaced by functions of the virtual clock
while a loop is `running`.  Every handle/timer/task carries the `OWNER` context variable of
the simulated client that created it, so a client can be killed (all its handles silently
dropped) and leftovers after stop() can be attributed.
"""
import asyncio
import contextvars
import heapq
import threading
import time as _time
from asyncio import events, transports

import logging

logging.getLogger("aiokafka").setLevel(logging.CRITICAL + 1)
logging.getLogger("asyncio").setLevel(logging.CRITICAL + 1)

OWNER = contextvars.ContextVar("OWNER", default=None)
EPS = 1e-6
T0 = 1000.0  # virtual monotonic clock at start
WALL0 = 1_600_000_000.0  # virtual wall clock at start


class MemTransport(transports.Transport):
    """Client side of an in-memory byte pipe; `peer` is the environment's connection object."""

    def __init__(self, loop, protocol, peer):
        super().__init__()
        self._loop = loop
        self._protocol = protocol
        self.peer = peer
        self.owner = OWNER.get()
        self._closing = False
        self._closed = False

    # client -> environment
    def write(self, data):
        if self._closing:
            return
        self.peer.on_client_bytes(bytes(data))

    def writelines(self, list_of_data):
        self.write(b"".join(list_of_data))

    def is_closing(self):
        return self._closing

    def close(self):
        if self._closing:
            return
        self._closing = True
        self.peer.on_client_close()
        self._loop.call_soon(self._call_connection_lost, None)

    def abort(self):
        self.close()

    def _call_connection_lost(self, exc):
        if self._closed:
            return
        self._closed = True
        self._protocol.connection_lost(exc)

    # environment -> client
    def feed(self, data):
        if not self._closing:
            self._protocol.data_received(data)

    def feed_eof(self):
        if not self._closing:
            keep = self._protocol.eof_received()
            if not keep:
                self.close()

    def reset(self, exc=None):
        """Peer reset / network failure: the protocol sees connection_lost(exc)."""
        if self._closing:
            return
        self._closing = True
        self._call_connection_lost(exc or ConnectionResetError("simulated connection reset"))

    @property
    def alive(self):
        return not self._closing

    def get_extra_info(self, name, default=None):
        return default

    def pause_reading(self):
        pass

    def resume_reading(self):
        pass

    def is_reading(self):
        return True

    def get_write_buffer_size(self):
        return 0

    def get_write_buffer_limits(self):
        return (0, 0)

    def set_write_buffer_limits(self, high=None, low=None):
        pass

    def can_write_eof(self):
        return False

    def get_protocol(self):
        return self._protocol

    def set_protocol(self, protocol):
        self._protocol = protocol


class SimLoop(asyncio.BaseEventLoop):
    def __init__(self, connector):
        super().__init__()
        self._vtime = T0
        self.connector = connector  # object with: async connect(loop, host, port, protocol) -> peer
        self._thread_id = threading.get_ident()
        self.handles_run = 0
        self.iterations = 0
        self.dead = set()
        self.transports = []
        self.exc_log = []
        self.set_exception_handler(lambda loop, ctx: loop.exc_log.append(ctx))

    def time(self):
        return self._vtime

    def _process_events(self, event_list):
        pass

    def _write_to_self(self):
        pass

    async def create_connection(self, protocol_factory, host=None, port=None, *, ssl=None, **kw):
        peer = await self.connector.connect(self, host, port)
        protocol = protocol_factory()
        tr = MemTransport(self, protocol, peer)
        self.transports.append(tr)
        peer.attach(tr)
        self.call_soon(protocol.connection_made, tr)
        fut = self.create_future()  # connection_made runs before create_connection returns, as in asyncio
        self.call_soon(lambda: fut.done() or fut.set_result(None))
        try:
            await fut
        except BaseException:
            tr.close()  # as BaseEventLoop._create_connection_transport does when the caller is cancelled at this point
            raise
        return tr, protocol

    def run_in_executor(self, executor, func, *args):
        fut = self.create_future()
        try:
            fut.set_result(func(*args))
        except Exception as e:  # noqa: BLE001
            fut.set_exception(e)
        return fut

    async def getaddrinfo(self, host, port, **kw):
        import socket

        return [(socket.AF_INET, socket.SOCK_STREAM, 6, "", (host, port))]

    # ---- stepping ---------------------------------------------------------------------
    def run_iteration(self):
        """One loop iteration exactly as BaseEventLoop._run_once orders it: due timers are moved to
        _ready, then the handles that are in _ready at that moment run FIFO."""
        self._vtime += EPS  # real clocks advance; a frozen clock would livelock `now > deadline` loops
        self.iterations += 1
        sched = self._scheduled
        while sched and sched[0]._cancelled:
            h = heapq.heappop(sched)
            h._scheduled = False
        while sched and sched[0]._when <= self._vtime:
            h = heapq.heappop(sched)
            h._scheduled = False
            if not h._cancelled:
                self._ready.append(h)
        ready = self._ready
        n = len(ready)
        dead = self.dead
        for _ in range(n):
            h = ready.popleft()
            if h._cancelled:
                continue
            if dead and h._context.get(OWNER) in dead:
                continue
            self.handles_run += 1
            h._run()
        h = None
        return n

    def next_timer(self):
        sched = self._scheduled
        while sched:
            h = sched[0]
            if h._cancelled or (self.dead and h._context.get(OWNER) in self.dead):
                heapq.heappop(sched)
                h._scheduled = False
                continue
            return h._when
        return None

    def advance_to_next_timer(self):
        when = self.next_timer()
        if when is None:
            return False
        if when > self._vtime:
            self._vtime = when
        return True

    def kill(self, owner):
        """Process death of a simulated client: none of its handles ever runs again, its
        transports are reset on the peer side (the peer sees the connection drop)."""
        self.dead.add(owner)
        for tr in self.transports:
            if tr.owner == owner and not tr._closing:
                tr._closing = True
                tr._closed = True
                tr.peer.on_client_close()

    def live_things(self, owner):
        """Tasks, timers, ready handles and transports still attributed to `owner`."""
        out = []
        for h in self._ready:
            if not h._cancelled and h._context.get(OWNER) == owner:
                out.append(("ready", repr(h)))
        for h in self._scheduled:
            if not h._cancelled and h._context.get(OWNER) == owner:
                out.append(("timer", repr(h)))
        for t in asyncio.all_tasks(self):
            if not t.done() and t.get_context().get(OWNER) == owner:
                out.append(("task", repr(t)))
        for tr in self.transports:
            if tr.owner == owner and not tr._closing:
                out.append(("transport", repr(tr.peer)))
        return out


class running:
    """Make `loop` the running loop of this thread and bind the clocks to it."""

    def __init__(self, loop):
        self.loop = loop

    def __enter__(self):
        loop = self.loop
        events._set_running_loop(loop)
        self._mono, self._tt = _time.monotonic, _time.time
        _time.monotonic = lambda: loop._vtime
        _time.time = lambda: WALL0 + (loop._vtime - T0)
        return loop

    def __exit__(self, *a):
        events._set_running_loop(None)
        _time.monotonic, _time.time = self._mono, self._tt
        return False
