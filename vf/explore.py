"""E1 - choice points, deviation-bounded stateless search, parallel driver, replay.

An *execution* is one complete run of a scenario on a fresh SimLoop, fully determined by a list of
*deviations* [(choice_point_index, alternative_index, label)]; everywhere else alternative 0 (the
canonical, fault-free, in-order environment) is taken.  The search is the iterative-bounding DFS of
the brief: run, look at the recorded choice points, and for every later choice point and every
alternative whose cost fits the remaining budgets, run again with that deviation appended.

Budget kinds: r = reordering at a quiescent point, p = injection at a non-quiescent iteration
boundary, f = fault, k = kill/stop, x = scenario data choice.
"""
import asyncio
import collections
import gc
import logging
import random
import struct

from vf.runner import Acc, HarnessError, h64
from vf.simloop import OWNER, SimLoop, running

logging.getLogger("aiokafka").setLevel(logging.CRITICAL + 1)
logging.getLogger("asyncio").setLevel(logging.CRITICAL + 1)

KINDS = ("r", "p", "f", "k", "x")


class Alt:
    __slots__ = ("label", "kind", "fn")

    def __init__(self, label, kind, fn):
        self.label = label  # deterministic, identity-free description
        self.kind = kind  # 'd' deliver, 'g' gate, 't' time, 'c' continue, 'f' fault, 'k' kill/stop, 'x' data
        self.fn = fn

    def __repr__(self):
        return f"{self.kind}:{self.label}"


class Chooser:
    def __init__(self, deviations=(), bounds=None):
        self.dev = {}
        for d in deviations:
            self.dev[d[0]] = d
        # bounds: one budget vector or a list of them; an execution is inside the explored set iff its spent
        # vector fits (componentwise) inside at least one of the vectors - the union, without duplicates
        blist = bounds if isinstance(bounds, (list, tuple)) else [bounds or {}]
        self.bounds_list = []
        for b in blist:
            v = dict.fromkeys(KINDS, 0)
            v.update(b)
            self.bounds_list.append(v)
        self.spent = dict.fromkeys(KINDS, 0)
        self.cps = []  # (quiescent, [labels], [kinds])
        self.last_dev = max(self.dev) if self.dev else -1
        self.trace = None  # list to append (cp index, chosen label) when tracing
        self.sched = 0  # running hash of the schedule actually taken (every chosen label, forced ones included)

    def remaining(self, kind):
        best = 0
        sp = self.spent
        for b in self.bounds_list:
            if all(sp[k] <= b[k] for k in KINDS):
                best = max(best, b[kind] - sp[kind])
        return best

    @staticmethod
    def cost_kind(alt, quiescent):
        if alt.kind in ("f", "k", "x"):
            return alt.kind
        return "r" if quiescent else "p"

    def choose(self, alts, quiescent=True):
        if len(alts) == 1:
            if self.trace is not None:
                self.trace.append((None, alts[0].label))
            self.sched = hash((self.sched, alts[0].label))
            return 0
        i = len(self.cps)
        self.cps.append((quiescent, [a.label for a in alts], [a.kind for a in alts]))
        d = self.dev.get(i)
        j = 0
        if d is not None:
            j = d[1]
            if j >= len(alts) or alts[j].label != d[2]:
                raise HarnessError(
                    f"REPLAY-DIVERGENCE at choice point {i}: wanted alt {j} {d[2]!r}, have {[a.label for a in alts]}")
            self.spent[self.cost_kind(alts[j], quiescent)] += 1
        if self.trace is not None:
            self.trace.append((i, alts[j].label))
        self.sched = hash((self.sched, alts[j].label, quiescent))
        return j

    def children(self):
        """Deviation lists extending this execution by one deviation at a later choice point."""
        base = [self.dev[k] for k in sorted(self.dev)]
        out = []
        for i in range(self.last_dev + 1, len(self.cps)):
            quiescent, labels, kinds = self.cps[i]
            for j in range(1, len(labels)):
                k = kinds[j] if kinds[j] in ("f", "k", "x") else ("r" if quiescent else "p")
                if self.remaining(k) > 0:
                    out.append(base + [(i, j, labels[j])])
        return out


class Conn:
    """Environment side of one client connection (the peer of a MemTransport)."""

    def __init__(self, net, node, owner, label):
        self.net = net
        self.node = node
        self.owner = owner
        self.label = label
        self.tr = None
        self.closed = False
        self.inbuf = bytearray()
        self.stalled = False  # a reply was lost: nothing more is delivered to the client on this connection
        self.busy = False  # a response is being withheld: Kafka reads one request at a time per connection
        self.ctx = {}  # server-side per-connection state

    def attach(self, tr):
        self.tr = tr

    def on_client_bytes(self, data):
        if self.closed:
            return
        self.inbuf += data
        while len(self.inbuf) >= 4:
            (n,) = struct.unpack_from(">i", self.inbuf)
            if len(self.inbuf) < 4 + n:
                break
            frame = bytes(self.inbuf[4:4 + n])
            del self.inbuf[:4 + n]
            self.net.enqueue("req", self, frame)

    def on_client_close(self):
        if self.closed:
            return
        self.closed = True
        self.net.conn_closed(self)

    def reset(self, exc=None):
        """Environment resets the connection (RST / broker died)."""
        if self.closed:
            return
        self.closed = True
        self.net.conn_closed(self)
        if self.tr is not None:
            self.tr.reset(exc)

    def send(self, frame, info=None):
        """Server -> client: queue one response frame (delivery is an explorer decision)."""
        if not self.closed:
            self.net.enqueue("resp", self, frame, info)

    def __repr__(self):
        return f"<Conn {self.label}>"


class Event:
    __slots__ = ("seq", "kind", "conn", "data", "info")

    def __init__(self, seq, kind, conn, data, info):
        self.seq = seq
        self.kind = kind  # 'syn', 'req', 'resp'
        self.conn = conn
        self.data = data
        self.info = info


class Net:
    """Per-connection, per-direction FIFO byte pipes; cross-connection order is an explorer choice."""

    def __init__(self, world):
        self.world = world
        self.pending = []  # Events in creation order
        self.seq = 0
        self.conn_count = collections.Counter()
        self.conns = []

    async def connect(self, loop, host, port):
        world = self.world
        node = world.server.resolve(host, port)
        owner = OWNER.get()
        self.conn_count[(owner, node)] += 1
        label = f"{owner}>{node}#{self.conn_count[(owner, node)]}"
        conn = Conn(self, node, owner, label)
        fut = loop.create_future()
        self.enqueue("syn", conn, fut)
        try:
            await fut
        except asyncio.CancelledError:
            conn.closed = True
            raise
        self.conns.append(conn)
        return conn

    def enqueue(self, kind, conn, data, info=None):
        self.seq += 1
        if info is None:
            info = self.world.server.describe(kind, conn, data)
        ev = Event(self.seq, kind, conn, data, info)
        self.pending.append(ev)
        if kind == "req":
            self.world.server.on_client_write(conn, data, ev)

    def conn_closed(self, conn):
        self.pending = [e for e in self.pending if e.conn is not conn]
        self.world.log("conn-closed", conn.label)
        self.world.server.on_conn_closed(conn)

    def heads(self):
        """Deliverable events: the oldest event of each (connection, direction), oldest first."""
        seen = set()
        out = []
        for e in self.pending:
            if e.kind == "syn":
                if e.data.cancelled():
                    continue
                out.append(e)
                continue
            k = (id(e.conn), e.kind)
            if k in seen:
                continue
            seen.add(k)
            if e.kind == "req" and e.conn.busy:
                continue
            if e.kind == "resp" and e.conn.stalled:
                continue
            out.append(e)
        return out

    def take(self, ev):
        self.pending.remove(ev)

    def deliver(self, ev):
        self.take(ev)
        world = self.world
        if ev.kind == "syn":
            fut = ev.data
            if fut.cancelled():
                return
            err = world.server.on_connect(ev.conn)
            if err is not None:
                fut.set_exception(err)
            else:
                fut.set_result(None)
        elif ev.kind == "req":
            world.server.on_request(ev.conn, ev.data)
        else:
            if not ev.conn.closed and ev.conn.tr is not None:
                world.log("deliver-resp", ev.conn.label, ev.info)
                world.server.on_response_delivered(ev.conn, ev.data)
                ev.conn.tr.feed(struct.pack(">i", len(ev.data)) + ev.data)


class Deadlock(Exception):
    pass


class World:
    """One execution: loop + net + server + gates + chooser, driven to completion by run()."""

    STEP_CAP = 400_000
    STORM = 300  # environment steps at one virtual instant before deliveries start to cost a network round trip
    BUSY_CAP = 30_000  # consecutive loop iterations without ever going quiescent: a task spinning without waiting

    def __init__(self, scn, chooser, trace=False):
        self.scn = scn
        self.chooser = chooser
        self.net = Net(self)
        self.loop = SimLoop(self.net)
        self.server = None  # set by scenario.setup: object with resolve/describe/on_connect/on_request/...
        self.gates = collections.OrderedDict()  # name -> future (waiting program steps)
        self.history = []  # harness-visible events: (vtime, kind, ...)
        self.events = [] if trace else None
        self.main_task = None
        self.capped = False
        self.p_enabled = False
        self.k_mid = False  # offer k-kind alternatives at non-quiescent iteration boundaries without spending p
        self.app_eager = False
        self.last_dev_t = 0.0  # virtual time of the last deviation from the canonical environment (bounded liveness)
        self.frozen = False  # True: canonical environment, no choice points (used while a client bootstraps)
        self.extra_alts = []  # callables(world) -> [Alt] (scenario specific: kill, stop, state faults)
        self.digests = set()
        self.transitions = 0
        if trace:
            chooser.trace = []

    # -- harness API used by scenario programs ------------------------------------------
    def now(self):
        return round(self.loop._vtime - 1000.0, 6)

    def log(self, *a):
        if self.events is not None:
            self.events.append((self.now(),) + a)

    def record(self, *a):
        self.history.append((self.now(),) + a)
        if self.events is not None:
            self.events.append((self.now(), "H") + a)

    async def gate(self, name):
        """Program step boundary: the explorer decides when this task proceeds."""
        fut = self.loop.create_future()
        self.gates[name] = fut
        try:
            await fut
        finally:
            self.gates.pop(name, None)

    def spawn(self, owner, coro_fn, *args):
        """Create a task whose context carries OWNER=owner (inherited by everything it creates)."""
        ctx = contextvars_copy(owner)
        return ctx.run(self.loop.create_task, coro_fn(*args))

    # -- alternatives -----------------------------------------------------------------------
    def _deliver_alts(self):
        return [Alt(f"{e.conn.label}:{e.kind}:{e.info}", "d", lambda e=e: self.net.deliver(e)) for e in self.net.heads()]

    def _gate_alts(self):
        out = []
        for name, fut in list(self.gates.items()):
            if not fut.done():
                out.append(Alt(f"gate:{name}", "g", lambda fut=fut: (not fut.done()) and fut.set_result(None)))
        return out

    def enabled(self, quiescent=True):
        d = self._deliver_alts()
        g = self._gate_alts()
        alts = (g + d) if self.app_eager else (d + g)
        if quiescent and self.loop.next_timer() is not None:
            alts.append(Alt("time", "t", self.loop.advance_to_next_timer))
        for fn in self.extra_alts:
            alts.extend(fn(self, quiescent))
        if self.chooser.remaining("f") > 0:
            alts.extend(self.server.fault_alts(self, self.net.heads()))
        return alts

    def _digest(self):
        # cheap statistic (never used for pruning): observable state = server state + history + pending multiset
        return h64((self.server.digest(), len(self.history), tuple(sorted((e.conn.label, e.kind, e.info) for e in self.net.pending)),
                    tuple(self.gates)))

    # -- main loop ------------------------------------------------------------------------
    def run(self):
        loop = self.loop
        chooser = self.chooser
        with running(loop):
            random.seed(0)
            self.scn.setup(self)
            steps = 0
            stuck_since = (loop._vtime, 0)
            storm, storm_t0 = 0, loop._vtime - loop.iterations * 1e-6
            busy = 0
            while not self.main_task.done():
                steps += 1
                if steps > self.STEP_CAP or busy > self.BUSY_CAP:
                    self.capped = True
                    break
                busy += 1
                if loop._ready or self._timer_due():
                    calm = not self.frozen and storm <= self.STORM
                    rp = self.p_enabled and calm and chooser.remaining("p") > 0
                    rk = self.k_mid and calm and chooser.remaining("k") > 0
                    if rp or rk:
                        # mid-cascade boundary: with p budget any event may be injected here; with k_mid a kill/stop/flush may be
                        # placed here at the cost of k alone ("at any point of the run", not only when every task is waiting)
                        alts = [Alt("continue", "c", None)] + [a for a in self.enabled(False) if a.kind != "t" and (rp or a.kind == "k")]
                        if len(alts) > 1:
                            j = chooser.choose(alts, quiescent=False)
                            if j:
                                self.transitions += 1
                                self.last_dev_t = self.now()
                                self.log("inject", alts[j].label)
                                alts[j].fn()
                    loop.run_iteration()
                    continue
                busy = 0  # quiescent: every task is waiting for the environment
                alts = self.enabled(True)
                if not alts:
                    raise Deadlock(f"no enabled event at t={self.now()} and main task not finished")
                # inside a request storm (see below) the environment is canonical: branching on each of thousands of
                # identical round trips would multiply executions without reaching new behaviour
                j = 0 if (self.frozen or storm > self.STORM) else chooser.choose(alts, quiescent=True)
                if len(alts) > 1:
                    self.digests.add(self._digest())
                self.transitions += 1
                if j:
                    self.last_dev_t = self.now()
                self.log("choose", alts[j].label)
                alts[j].fn()
                # Deliveries are instantaneous in the model. Code that answers every reply with a new request at once (a
                # metadata refresh storm while a partition is leaderless, a fetch retried at a stale leader) would then
                # run for ever at one virtual instant although in reality it is paced by the network round trip. After
                # STORM back-to-back environment steps without the clock moving, every further delivery takes 1 ms until a
                # timer fires (the storm is over when the system waits for time again).
                real_t = loop._vtime - loop.iterations * 1e-6  # the clock without the 1 us tick every loop iteration adds
                if alts[j].kind == "t":
                    storm = 0
                    storm_t0 = real_t
                elif real_t - storm_t0 < 1e-5:
                    storm += 1
                    if storm > self.STORM:
                        loop._vtime += 1e-3
                        storm_t0 = real_t + 1e-3
                # livelock guard: virtual time must make real progress
                if loop._vtime - stuck_since[0] > 1e-3:
                    stuck_since = (loop._vtime, steps)
                elif steps - stuck_since[1] > 50_000:
                    self.capped = True
                    self.livelock = True
                    break
            n = 0
            while loop._ready and n < 1000:
                loop.run_iteration()
                n += 1
            self.scn.finish(self)
        return self

    livelock = False

    def _timer_due(self):
        w = self.loop.next_timer()
        return w is not None and w <= self.loop._vtime


def contextvars_copy(owner):
    import contextvars

    ctx = contextvars.copy_context()
    ctx.run(OWNER.set, owner)
    return ctx


class Result:
    """What one execution produced (picklable summary)."""

    def __init__(self):
        self.violations = []  # (oracle, sig, msg)
        self.outcome = None  # canonical outcome digest (for the vacuity guard)
        self.capped = False
        self.cps = 0
        self.transitions = 0
        self.sched = 0
        self.digests = set()
        self.children = []
        self.trace = None


def execute(scn_factory, params, deviations, bounds, trace=False):
    """Run one execution of scenario `scn_factory(params)` with the given deviations."""
    scn = scn_factory(params)
    chooser = Chooser(deviations, bounds)
    world = World(scn, chooser, trace=trace)
    scn.world = world
    try:
        world.run()
    except Deadlock as e:
        scn.violations.append(("deadlock", {"what": "deadlock"}, str(e)))
    finally:
        # break reference cycles of abandoned coroutines promptly
        for t in asyncio.all_tasks(world.loop):
            if not t.done():
                t._log_destroy_pending = False
    res = Result()
    res.violations = list(scn.violations)
    res.outcome = scn.outcome()
    res.capped = world.capped
    res.cps = len(chooser.cps)
    res.transitions = world.transitions
    res.sched = chooser.sched
    res.digests = world.digests
    res.children = chooser.children()
    if getattr(world, "livelock", False):
        res.violations.append(("livelock", {"what": "livelock"}, f"virtual time stopped advancing near t={world.now()}"))
    elif world.capped:
        # every scenario bounds itself in virtual time; the clock ticks 1 us per loop iteration, so a run that needs more than
        # STEP_CAP iterations is code spinning without waiting (e.g. an asyncio.wait() over an already finished task), not a long run
        res.violations.append(("nontermination", {"what": "step-cap"},
                               f"run did not finish within {World.STEP_CAP} loop iterations / ran {World.BUSY_CAP} iterations without going quiescent "
                               f"(t={world.now()}): the code under test spins"))
    if trace:
        res.trace = (world.events, chooser.trace, [c[1] for c in chooser.cps])
        res.world = world
    return res


_EXEC_COUNT = 0


def _explore_task(task):
    """Worker: run prefix; optionally descend exhaustively (DFS) below it."""
    global _EXEC_COUNT
    scn_factory, params, bounds, dev, descend, name = task
    acc = Acc()
    if not dev:
        # determinism self-check: the default schedule twice, full traces compared
        a = execute(scn_factory, params, [], bounds, trace=True)
        b = execute(scn_factory, params, [], bounds, trace=True)
        if a.trace[1] != b.trace[1] or a.outcome != b.outcome or a.trace[0] != b.trace[0]:
            raise HarnessError(f"nondeterministic default execution in scenario {name} {params}")
    stack = [dev]
    children_out = []
    while stack:
        d = stack.pop()
        res = execute(scn_factory, params, d, bounds)
        _EXEC_COUNT += 1
        if _EXEC_COUNT % 200 == 0:
            gc.collect()
        acc.count("evaluations")
        acc.count("transitions", res.transitions)
        acc.count("choice_points", res.cps)
        st = acc.sets.setdefault("states", set())
        if len(st) < 300_000:  # statistic only; bounded per task so a deep subtree cannot exhaust memory
            st.update(res.digests)
        acc.distinct("outcomes", res.outcome)
        if d:  # non-trivial = departs from the canonical schedule; distinct = distinct event schedule actually executed
            acc.sets.setdefault("distinct", set()).add(hash((name, res.sched)) & 0xFFFFFFFFFFFFFFFF)
        acc.count("exec:" + name)
        if res.capped:
            acc.cap(f"step cap hit in scenario {name}")
        for oracle, sig, msg in res.violations:
            # reproduce-before-report: identical verdict on a second run from scratch
            res2 = execute(scn_factory, params, d, bounds)
            if (oracle, sig) not in [(o, s) for o, s, _ in res2.violations]:
                raise HarnessError(f"FLAKY verdict for {name} {params} {d}: {oracle} {sig} not reproduced")
            sig = dict(sig)
            sig["scenario"] = name
            acc.violation(oracle, sig, {"scenario": name, "params": params, "bounds": bounds,
                                        "deviations": [list(x) for x in d]}, msg)
        if descend:
            stack.extend(reversed(res.children))
        else:
            children_out.extend(res.children)
    acc.notes["_children"] = children_out
    acc.notes["_name"] = name
    return acc


def explore_many(ctx, jobs, descend_level=2):
    """Exhaustive deviation-bounded exploration of many scenarios with one worker pool per level.
    jobs: [(name, scn_factory, params, bounds)].  Returns {name: executions}."""
    byname = {j[0]: j for j in jobs}
    frontier = [(j[0], []) for j in jobs]
    level = 0
    while frontier:
        # a frontier already wide enough to keep every worker busy is descended by the workers themselves: the same executions,
        # but the parent never holds the (possibly 10^6-entry) next level (k_mid x r frontiers of C19 reached 3 GB, copied on fork)
        descend = level >= descend_level or len(frontier) >= 4096
        tasks = [(byname[n][1], byname[n][2], byname[n][3], d, descend, n) for n, d in frontier]
        frontier = []

        def take(acc, frontier=frontier):
            n = acc.notes.pop("_name")
            frontier.extend((n, d) for d in acc.notes.pop("_children", []))
            ctx.merge(acc)

        ctx.pmap(_explore_task, tasks, merge=False, chunksize=max(1, min(16, len(tasks) // (ctx.jobs * 16) or 1)), each=take)
        level += 1
        if descend:
            break
    ctx.count("scenarios", len(jobs))
    return {n: ctx.counts.get("exec:" + n, 0) for n in byname}


def explore(ctx, name, scn_factory, params, bounds, min_parallel=64):
    """Exhaustive deviation-bounded exploration of one scenario; merges statistics into ctx."""
    return explore_many(ctx, [(name, scn_factory, params, bounds)])[name]


def replay_execution(scn_factory, data, verbose=True):
    """Re-run exactly one execution twice with full tracing; returns (result, identical?)."""
    dev = [tuple(x) for x in data["deviations"]]
    a = execute(scn_factory, data["params"], dev, data["bounds"], trace=True)
    b = execute(scn_factory, data["params"], dev, data["bounds"], trace=True)
    same = a.trace[1] == b.trace[1] and a.violations == b.violations
    if verbose:
        for ev in a.trace[0]:
            print("  ", *ev)
        for o, s, m in a.violations:
            print("VERDICT", o, s, m)
    return a, same
