"""Kafka protocol tables, transcribed by hand from the Kafka protocol specification
(clients/src/main/resources/common/message/*.json of Apache Kafka), in that file's own style:

    F(name, type, versions, nullable=<version range>, default=<value>)

* type: int8 int16 int32 int64 uint16 uint32 float64 bool string bytes records uuid, "[]<primitive>",
  or a python list of F(...) = array of structs.
* versions / nullable / flexible are Kafka version-range strings: "0+", "3-7", "2", None (= never).
* Names are Kafka's JSON names in snake_case (TopicData -> topic_data).
* `versions` of a message is the range this table has been written and checked for (at least every
  version aiokafka declares); it is NOT Kafka's full valid range.
* default: only given where the Kafka JSON gives one that differs from 0/""/false/[] ("null" -> None).

Nothing here is derived from aiokafka/protocol/*.py.
"""

_ND = object()


def F(name, type, versions="0+", nullable=None, default=_ND):  # noqa: A002
    d = {"name": name, "type": type, "versions": versions, "nullable": nullable}
    if default is not _ND:
        d["default"] = default
    return d


def M(key, name, versions, flexible, request, response):
    return {"key": key, "name": name, "versions": versions, "flexible": flexible,
            "request": request, "response": response}


MESSAGES = [
    # ------------------------------------------------------------------ 0 Produce
    M(0, "Produce", "0-8", "9+",
      request=[
          F("transactional_id", "string", "3+", nullable="3+", default=None),
          F("acks", "int16"),
          F("timeout_ms", "int32"),
          F("topic_data", [
              F("name", "string"),
              F("partition_data", [
                  F("index", "int32"),
                  F("records", "records", nullable="0+"),
              ]),
          ]),
      ],
      response=[
          F("responses", [
              F("name", "string"),
              F("partition_responses", [
                  F("index", "int32"),
                  F("error_code", "int16"),
                  F("base_offset", "int64"),
                  F("log_append_time_ms", "int64", "2+", default=-1),
                  F("log_start_offset", "int64", "5+", default=-1),
                  F("record_errors", [
                      F("batch_index", "int32"),
                      F("batch_index_error_message", "string", nullable="8+", default=None),
                  ], "8+"),
                  F("error_message", "string", "8+", nullable="8+", default=None),
              ]),
          ]),
          F("throttle_time_ms", "int32", "1+"),
      ]),
    # ------------------------------------------------------------------ 1 Fetch
    M(1, "Fetch", "0-11", "12+",
      request=[
          F("replica_id", "int32", default=-1),
          F("max_wait_ms", "int32"),
          F("min_bytes", "int32"),
          F("max_bytes", "int32", "3+", default=0x7FFFFFFF),
          F("isolation_level", "int8", "4+"),
          F("session_id", "int32", "7+"),
          F("session_epoch", "int32", "7+", default=-1),
          F("topics", [
              F("topic", "string"),
              F("partitions", [
                  F("partition", "int32"),
                  F("current_leader_epoch", "int32", "9+", default=-1),
                  F("fetch_offset", "int64"),
                  F("log_start_offset", "int64", "5+", default=-1),
                  F("partition_max_bytes", "int32"),
              ]),
          ]),
          F("forgotten_topics_data", [
              F("topic", "string"),
              F("partitions", "[]int32"),
          ], "7+"),
          F("rack_id", "string", "11+"),
      ],
      response=[
          F("throttle_time_ms", "int32", "1+"),
          F("error_code", "int16", "7+"),
          F("session_id", "int32", "7+"),
          F("responses", [
              F("topic", "string"),
              F("partitions", [
                  F("partition_index", "int32"),
                  F("error_code", "int16"),
                  F("high_watermark", "int64"),
                  F("last_stable_offset", "int64", "4+", default=-1),
                  F("log_start_offset", "int64", "5+", default=-1),
                  F("aborted_transactions", [
                      F("producer_id", "int64"),
                      F("first_offset", "int64"),
                  ], "4+", nullable="4+"),
                  F("preferred_read_replica", "int32", "11+", default=-1),
                  F("records", "records", nullable="0+"),
              ]),
          ]),
      ]),
    # ------------------------------------------------------------------ 2 ListOffsets
    M(2, "ListOffsets", "0-5", "6+",
      request=[
          F("replica_id", "int32"),
          F("isolation_level", "int8", "2+"),
          F("topics", [
              F("name", "string"),
              F("partitions", [
                  F("partition_index", "int32"),
                  F("current_leader_epoch", "int32", "4+", default=-1),
                  F("timestamp", "int64"),
                  F("max_num_offsets", "int32", "0", default=1),
              ]),
          ]),
      ],
      response=[
          F("throttle_time_ms", "int32", "2+"),
          F("topics", [
              F("name", "string"),
              F("partitions", [
                  F("partition_index", "int32"),
                  F("error_code", "int16"),
                  F("old_style_offsets", "[]int64", "0"),
                  F("timestamp", "int64", "1+", default=-1),
                  F("offset", "int64", "1+", default=-1),
                  F("leader_epoch", "int32", "4+", default=-1),
              ]),
          ]),
      ]),
    # ------------------------------------------------------------------ 3 Metadata
    M(3, "Metadata", "0-8", "9+",
      request=[
          F("topics", [
              F("name", "string"),
          ], nullable="1+"),
          F("allow_auto_topic_creation", "bool", "4+", default=True),
          F("include_cluster_authorized_operations", "bool", "8-10"),
          F("include_topic_authorized_operations", "bool", "8+"),
      ],
      response=[
          F("throttle_time_ms", "int32", "3+"),
          F("brokers", [
              F("node_id", "int32"),
              F("host", "string"),
              F("port", "int32"),
              F("rack", "string", "1+", nullable="1+", default=None),
          ]),
          F("cluster_id", "string", "2+", nullable="2+", default=None),
          F("controller_id", "int32", "1+", default=-1),
          F("topics", [
              F("error_code", "int16"),
              F("name", "string"),
              F("is_internal", "bool", "1+"),
              F("partitions", [
                  F("error_code", "int16"),
                  F("partition_index", "int32"),
                  F("leader_id", "int32"),
                  F("leader_epoch", "int32", "7+", default=-1),
                  F("replica_nodes", "[]int32"),
                  F("isr_nodes", "[]int32"),
                  F("offline_replicas", "[]int32", "5+"),
              ]),
              F("topic_authorized_operations", "int32", "8+", default=-2147483648),
          ]),
          F("cluster_authorized_operations", "int32", "8-10", default=-2147483648),
      ]),
    # ------------------------------------------------------------------ 8 OffsetCommit
    M(8, "OffsetCommit", "0-7", "8+",
      request=[
          F("group_id", "string"),
          F("generation_id", "int32", "1+", default=-1),
          F("member_id", "string", "1+"),
          F("group_instance_id", "string", "7+", nullable="7+", default=None),
          F("retention_time_ms", "int64", "2-4", default=-1),
          F("topics", [
              F("name", "string"),
              F("partitions", [
                  F("partition_index", "int32"),
                  F("committed_offset", "int64"),
                  F("committed_leader_epoch", "int32", "6+", default=-1),
                  F("commit_timestamp", "int64", "1", default=-1),
                  F("committed_metadata", "string", nullable="0+"),
              ]),
          ]),
      ],
      response=[
          F("throttle_time_ms", "int32", "3+"),
          F("topics", [
              F("name", "string"),
              F("partitions", [
                  F("partition_index", "int32"),
                  F("error_code", "int16"),
              ]),
          ]),
      ]),
    # ------------------------------------------------------------------ 9 OffsetFetch
    M(9, "OffsetFetch", "0-5", "6+",
      request=[
          F("group_id", "string"),
          F("topics", [
              F("name", "string"),
              F("partition_indexes", "[]int32"),
          ], nullable="2+"),
      ],
      response=[
          F("throttle_time_ms", "int32", "3+"),
          F("topics", [
              F("name", "string"),
              F("partitions", [
                  F("partition_index", "int32"),
                  F("committed_offset", "int64"),
                  F("committed_leader_epoch", "int32", "5+", default=-1),
                  F("metadata", "string", nullable="0+"),
                  F("error_code", "int16"),
              ]),
          ]),
          F("error_code", "int16", "2+"),
      ]),
    # ------------------------------------------------------------------ 10 FindCoordinator
    M(10, "FindCoordinator", "0-2", "3+",
      request=[
          F("key", "string"),
          F("key_type", "int8", "1+"),
      ],
      response=[
          F("throttle_time_ms", "int32", "1+"),
          F("error_code", "int16"),
          F("error_message", "string", "1+", nullable="1+"),
          F("node_id", "int32"),
          F("host", "string"),
          F("port", "int32"),
      ]),
    # ------------------------------------------------------------------ 11 JoinGroup
    M(11, "JoinGroup", "0-5", "6+",
      request=[
          F("group_id", "string"),
          F("session_timeout_ms", "int32"),
          F("rebalance_timeout_ms", "int32", "1+", default=-1),
          F("member_id", "string"),
          F("group_instance_id", "string", "5+", nullable="5+", default=None),
          F("protocol_type", "string"),
          F("protocols", [
              F("name", "string"),
              F("metadata", "bytes"),
          ]),
      ],
      response=[
          F("throttle_time_ms", "int32", "2+"),
          F("error_code", "int16"),
          F("generation_id", "int32", default=-1),
          F("protocol_name", "string"),
          F("leader", "string"),
          F("member_id", "string"),
          F("members", [
              F("member_id", "string"),
              F("group_instance_id", "string", "5+", nullable="5+", default=None),
              F("metadata", "bytes"),
          ]),
      ]),
    # ------------------------------------------------------------------ 12 Heartbeat
    M(12, "Heartbeat", "0-3", "4+",
      request=[
          F("group_id", "string"),
          F("generation_id", "int32"),
          F("member_id", "string"),
          F("group_instance_id", "string", "3+", nullable="3+", default=None),
      ],
      response=[
          F("throttle_time_ms", "int32", "1+"),
          F("error_code", "int16"),
      ]),
    # ------------------------------------------------------------------ 13 LeaveGroup
    M(13, "LeaveGroup", "0-2", "4+",
      request=[
          F("group_id", "string"),
          F("member_id", "string", "0-2"),
      ],
      response=[
          F("throttle_time_ms", "int32", "1+"),
          F("error_code", "int16"),
      ]),
    # ------------------------------------------------------------------ 14 SyncGroup
    M(14, "SyncGroup", "0-3", "4+",
      request=[
          F("group_id", "string"),
          F("generation_id", "int32"),
          F("member_id", "string"),
          F("group_instance_id", "string", "3+", nullable="3+", default=None),
          F("assignments", [
              F("member_id", "string"),
              F("assignment", "bytes"),
          ]),
      ],
      response=[
          F("throttle_time_ms", "int32", "1+"),
          F("error_code", "int16"),
          F("assignment", "bytes"),
      ]),
    # ------------------------------------------------------------------ 15 DescribeGroups
    M(15, "DescribeGroups", "0-4", "5+",
      request=[
          F("groups", "[]string"),
          F("include_authorized_operations", "bool", "3+"),
      ],
      response=[
          F("throttle_time_ms", "int32", "1+"),
          F("groups", [
              F("error_code", "int16"),
              F("group_id", "string"),
              F("group_state", "string"),
              F("protocol_type", "string"),
              F("protocol_data", "string"),
              F("members", [
                  F("member_id", "string"),
                  F("group_instance_id", "string", "4+", nullable="4+", default=None),
                  F("client_id", "string"),
                  F("client_host", "string"),
                  F("member_metadata", "bytes"),
                  F("member_assignment", "bytes"),
              ]),
              F("authorized_operations", "int32", "3+", default=-2147483648),
          ]),
      ]),
    # ------------------------------------------------------------------ 16 ListGroups
    M(16, "ListGroups", "0-2", "3+",
      request=[],
      response=[
          F("throttle_time_ms", "int32", "1+"),
          F("error_code", "int16"),
          F("groups", [
              F("group_id", "string"),
              F("protocol_type", "string"),
          ]),
      ]),
    # ------------------------------------------------------------------ 17 SaslHandshake
    M(17, "SaslHandshake", "0-1", None,
      request=[
          F("mechanism", "string"),
      ],
      response=[
          F("error_code", "int16"),
          F("mechanisms", "[]string"),
      ]),
    # ------------------------------------------------------------------ 18 ApiVersions
    # v3 (flexible) is included: request header v2, but the response header stays v0.  The v3
    # response's optional tagged fields (supported_features ...) are carried raw in _tagged_fields.
    M(18, "ApiVersions", "0-3", "3+",
      request=[
          F("client_software_name", "string", "3+"),
          F("client_software_version", "string", "3+"),
      ],
      response=[
          F("error_code", "int16"),
          F("api_keys", [
              F("api_key", "int16"),
              F("min_version", "int16"),
              F("max_version", "int16"),
          ]),
          F("throttle_time_ms", "int32", "1+"),
      ]),
    # ------------------------------------------------------------------ 22 InitProducerId
    M(22, "InitProducerId", "0-1", "2+",
      request=[
          F("transactional_id", "string", nullable="0+"),
          F("transaction_timeout_ms", "int32"),
      ],
      response=[
          F("throttle_time_ms", "int32"),
          F("error_code", "int16"),
          F("producer_id", "int64", default=-1),
          F("producer_epoch", "int16"),
      ]),
    # ------------------------------------------------------------------ 24 AddPartitionsToTxn
    # (names of the pre-v4 JSON: TransactionalId/ProducerId/ProducerEpoch/Topics, Results)
    M(24, "AddPartitionsToTxn", "0-2", "3+",
      request=[
          F("transactional_id", "string"),
          F("producer_id", "int64"),
          F("producer_epoch", "int16"),
          F("topics", [
              F("name", "string"),
              F("partitions", "[]int32"),
          ]),
      ],
      response=[
          F("throttle_time_ms", "int32"),
          F("results", [
              F("name", "string"),
              F("results", [
                  F("partition_index", "int32"),
                  F("error_code", "int16"),
              ]),
          ]),
      ]),
    # ------------------------------------------------------------------ 25 AddOffsetsToTxn
    M(25, "AddOffsetsToTxn", "0-2", "3+",
      request=[
          F("transactional_id", "string"),
          F("producer_id", "int64"),
          F("producer_epoch", "int16"),
          F("group_id", "string"),
      ],
      response=[
          F("throttle_time_ms", "int32"),
          F("error_code", "int16"),
      ]),
    # ------------------------------------------------------------------ 26 EndTxn
    M(26, "EndTxn", "0-2", "3+",
      request=[
          F("transactional_id", "string"),
          F("producer_id", "int64"),
          F("producer_epoch", "int16"),
          F("committed", "bool"),
      ],
      response=[
          F("throttle_time_ms", "int32"),
          F("error_code", "int16"),
      ]),
    # ------------------------------------------------------------------ 28 TxnOffsetCommit
    M(28, "TxnOffsetCommit", "0-2", "3+",
      request=[
          F("transactional_id", "string"),
          F("group_id", "string"),
          F("producer_id", "int64"),
          F("producer_epoch", "int16"),
          F("topics", [
              F("name", "string"),
              F("partitions", [
                  F("partition_index", "int32"),
                  F("committed_offset", "int64"),
                  F("committed_leader_epoch", "int32", "2+", default=-1),
                  F("committed_metadata", "string", nullable="0+"),
              ]),
          ]),
      ],
      response=[
          F("throttle_time_ms", "int32"),
          F("topics", [
              F("name", "string"),
              F("partitions", [
                  F("partition_index", "int32"),
                  F("error_code", "int16"),
              ]),
          ]),
      ]),
    # ------------------------------------------------------------------ 36 SaslAuthenticate
    M(36, "SaslAuthenticate", "0-1", "2+",
      request=[
          F("auth_bytes", "bytes"),
      ],
      response=[
          F("error_code", "int16"),
          F("error_message", "string", nullable="0+"),
          F("auth_bytes", "bytes"),
          F("session_lifetime_ms", "int64", "1+"),
      ]),

    # ================================================================== admin APIs
    # ------------------------------------------------------------------ 19 CreateTopics
    M(19, "CreateTopics", "0-4", "5+",
      request=[
          F("topics", [
              F("name", "string"),
              F("num_partitions", "int32"),
              F("replication_factor", "int16"),
              F("assignments", [
                  F("partition_index", "int32"),
                  F("broker_ids", "[]int32"),
              ]),
              F("configs", [
                  F("name", "string"),
                  F("value", "string", nullable="0+"),
              ]),
          ]),
          F("timeout_ms", "int32", default=60000),
          F("validate_only", "bool", "1+"),
      ],
      response=[
          F("throttle_time_ms", "int32", "2+"),
          F("topics", [
              F("name", "string"),
              F("error_code", "int16"),
              F("error_message", "string", "1+", nullable="0+"),
          ]),
      ]),
    # ------------------------------------------------------------------ 20 DeleteTopics
    M(20, "DeleteTopics", "0-3", "4+",
      request=[
          F("topic_names", "[]string"),
          F("timeout_ms", "int32"),
      ],
      response=[
          F("throttle_time_ms", "int32", "1+"),
          F("responses", [
              F("name", "string"),
              F("error_code", "int16"),
          ]),
      ]),
    # ------------------------------------------------------------------ 21 DeleteRecords
    M(21, "DeleteRecords", "0-2", "2+",
      request=[
          F("topics", [
              F("name", "string"),
              F("partitions", [
                  F("partition_index", "int32"),
                  F("offset", "int64"),
              ]),
          ]),
          F("timeout_ms", "int32"),
      ],
      response=[
          F("throttle_time_ms", "int32"),
          F("topics", [
              F("name", "string"),
              F("partitions", [
                  F("partition_index", "int32"),
                  F("low_watermark", "int64"),
                  F("error_code", "int16"),
              ]),
          ]),
      ]),
    # ------------------------------------------------------------------ 29 DescribeAcls
    M(29, "DescribeAcls", "0-2", "2+",
      request=[
          F("resource_type_filter", "int8"),
          F("resource_name_filter", "string", nullable="0+"),
          F("pattern_type_filter", "int8", "1+", default=3),
          F("principal_filter", "string", nullable="0+"),
          F("host_filter", "string", nullable="0+"),
          F("operation", "int8"),
          F("permission_type", "int8"),
      ],
      response=[
          F("throttle_time_ms", "int32"),
          F("error_code", "int16"),
          F("error_message", "string", nullable="0+"),
          F("resources", [
              F("resource_type", "int8"),
              F("resource_name", "string"),
              F("pattern_type", "int8", "1+", default=3),
              F("acls", [
                  F("principal", "string"),
                  F("host", "string"),
                  F("operation", "int8"),
                  F("permission_type", "int8"),
              ]),
          ]),
      ]),
    # ------------------------------------------------------------------ 30 CreateAcls
    M(30, "CreateAcls", "0-2", "2+",
      request=[
          F("creations", [
              F("resource_type", "int8"),
              F("resource_name", "string"),
              F("resource_pattern_type", "int8", "1+", default=3),
              F("principal", "string"),
              F("host", "string"),
              F("operation", "int8"),
              F("permission_type", "int8"),
          ]),
      ],
      response=[
          F("throttle_time_ms", "int32"),
          F("results", [
              F("error_code", "int16"),
              F("error_message", "string", nullable="0+"),
          ]),
      ]),
    # ------------------------------------------------------------------ 31 DeleteAcls
    M(31, "DeleteAcls", "0-2", "2+",
      request=[
          F("filters", [
              F("resource_type_filter", "int8"),
              F("resource_name_filter", "string", nullable="0+"),
              F("pattern_type_filter", "int8", "1+", default=3),
              F("principal_filter", "string", nullable="0+"),
              F("host_filter", "string", nullable="0+"),
              F("operation", "int8"),
              F("permission_type", "int8"),
          ]),
      ],
      response=[
          F("throttle_time_ms", "int32"),
          F("filter_results", [
              F("error_code", "int16"),
              F("error_message", "string", nullable="0+"),
              F("matching_acls", [
                  F("error_code", "int16"),
                  F("error_message", "string", nullable="0+"),
                  F("resource_type", "int8"),
                  F("resource_name", "string"),
                  F("pattern_type", "int8", "1+", default=3),
                  F("principal", "string"),
                  F("host", "string"),
                  F("operation", "int8"),
                  F("permission_type", "int8"),
              ]),
          ]),
      ]),
    # ------------------------------------------------------------------ 32 DescribeConfigs
    M(32, "DescribeConfigs", "0-2", "4+",
      request=[
          F("resources", [
              F("resource_type", "int8"),
              F("resource_name", "string"),
              F("configuration_keys", "[]string", nullable="0+"),
          ]),
          F("include_synonyms", "bool", "1+"),
      ],
      response=[
          F("throttle_time_ms", "int32"),
          F("results", [
              F("error_code", "int16"),
              F("error_message", "string", nullable="0+"),
              F("resource_type", "int8"),
              F("resource_name", "string"),
              F("configs", [
                  F("name", "string"),
                  F("value", "string", nullable="0+"),
                  F("read_only", "bool"),
                  F("is_default", "bool", "0"),
                  F("config_source", "int8", "1+", default=-1),
                  F("is_sensitive", "bool"),
                  F("synonyms", [
                      F("name", "string"),
                      F("value", "string", nullable="0+"),
                      F("source", "int8"),
                  ], "1+"),
              ]),
          ]),
      ]),
    # ------------------------------------------------------------------ 33 AlterConfigs
    M(33, "AlterConfigs", "0-1", "2+",
      request=[
          F("resources", [
              F("resource_type", "int8"),
              F("resource_name", "string"),
              F("configs", [
                  F("name", "string"),
                  F("value", "string", nullable="0+"),
              ]),
          ]),
          F("validate_only", "bool"),
      ],
      response=[
          F("throttle_time_ms", "int32"),
          F("responses", [
              F("error_code", "int16"),
              F("error_message", "string", nullable="0+"),
              F("resource_type", "int8"),
              F("resource_name", "string"),
          ]),
      ]),
    # ------------------------------------------------------------------ 37 CreatePartitions
    M(37, "CreatePartitions", "0-1", "2+",
      request=[
          F("topics", [
              F("name", "string"),
              F("count", "int32"),
              F("assignments", [
                  F("broker_ids", "[]int32"),
              ], nullable="0+"),
          ]),
          F("timeout_ms", "int32"),
          F("validate_only", "bool"),
      ],
      response=[
          F("throttle_time_ms", "int32"),
          F("results", [
              F("name", "string"),
              F("error_code", "int16"),
              F("error_message", "string", nullable="0+", default=None),
          ]),
      ]),
    # ------------------------------------------------------------------ 42 DeleteGroups
    M(42, "DeleteGroups", "0-1", "2+",
      request=[
          F("groups_names", "[]string"),
      ],
      response=[
          F("throttle_time_ms", "int32"),
          F("results", [
              F("group_id", "string"),
              F("error_code", "int16"),
          ]),
      ]),
    # ------------------------------------------------------------------ 45 AlterPartitionReassignments
    M(45, "AlterPartitionReassignments", "0", "0+",
      request=[
          F("timeout_ms", "int32", default=60000),
          F("topics", [
              F("name", "string"),
              F("partitions", [
                  F("partition_index", "int32"),
                  F("replicas", "[]int32", nullable="0+", default=None),
              ]),
          ]),
      ],
      response=[
          F("throttle_time_ms", "int32"),
          F("error_code", "int16"),
          F("error_message", "string", nullable="0+"),
          F("responses", [
              F("name", "string"),
              F("partitions", [
                  F("partition_index", "int32"),
                  F("error_code", "int16"),
                  F("error_message", "string", nullable="0+"),
              ]),
          ]),
      ]),
    # ------------------------------------------------------------------ 46 ListPartitionReassignments
    M(46, "ListPartitionReassignments", "0", "0+",
      request=[
          F("timeout_ms", "int32", default=60000),
          F("topics", [
              F("name", "string"),
              F("partition_indexes", "[]int32"),
          ], nullable="0+", default=None),
      ],
      response=[
          F("throttle_time_ms", "int32"),
          F("error_code", "int16"),
          F("error_message", "string", nullable="0+"),
          F("topics", [
              F("name", "string"),
              F("partitions", [
                  F("partition_index", "int32"),
                  F("replicas", "[]int32"),
                  F("adding_replicas", "[]int32"),
                  F("removing_replicas", "[]int32"),
              ]),
          ]),
      ]),
    # ------------------------------------------------------------------ 48 DescribeClientQuotas
    M(48, "DescribeClientQuotas", "0", "1+",
      request=[
          F("components", [
              F("entity_type", "string"),
              F("match_type", "int8"),
              F("match", "string", nullable="0+"),
          ]),
          F("strict", "bool"),
      ],
      response=[
          F("throttle_time_ms", "int32"),
          F("error_code", "int16"),
          F("error_message", "string", nullable="0+"),
          F("entries", [
              F("entity", [
                  F("entity_type", "string"),
                  F("entity_name", "string", nullable="0+"),
              ]),
              F("values", [
                  F("key", "string"),
                  F("value", "float64"),
              ]),
          ], nullable="0+"),
      ]),
]
