"""python -m vf.kwire.selftest  -- exits non-zero on any mismatch.

A. literal byte strings pinned in /repo/tests/test_protocol.py (request header of FindCoordinator v0,
   the partial FetchResponse_v0) and expected struct values of /repo/tests/test_requests.py written out
   as bytes by hand (struct.pack, no aiokafka import): decode with the tables, re-encode to identical bytes.
B. hand-computed flexible-version vectors (compact strings/arrays, tagged fields, header v2 / v1,
   ApiVersions v3 answered with header v0).
C. for every API x version x kind: default body and a populated body (every array 2 elements, every
   nullable field both null and non-null) round-trip with no bytes left; every strict prefix of the
   encoding raises WireError; one extra byte raises WireError.
"""
import struct
import sys

from . import (API_KEYS, API_NAMES, WireError, decode_body, decode_request, decode_response, default_body,
               encode_body, encode_request, encode_response, peek_request_header, schema, versions)

FAIL = []


def check(name, cond, detail=""):
    if not cond:
        FAIL.append(name)
        print(f"FAIL {name} {detail}")


def s16(s):
    b = s.encode()
    return struct.pack(">h", len(b)) + b


def b32(b):
    return struct.pack(">i", len(b)) + b


def i8(x): return struct.pack(">b", x)
def i16(x): return struct.pack(">h", x)
def i32(x): return struct.pack(">i", x)
def i64(x): return struct.pack(">q", x)


def part_a():
    # tests/test_protocol.py::test_encode_message_header
    expect = b"".join([struct.pack(">h", 10), struct.pack(">h", 0), struct.pack(">i", 4),
                       struct.pack(">h", len("client3")), b"client3"])
    full = expect + s16("foo")  # FindCoordinatorRequest_v0("foo")
    r = decode_request(full)
    check("A.header.decode", (r.api_key, r.version, r.correlation_id, r.client_id, r.body) ==
          (10, 0, 4, "client3", {"key": "foo"}), repr(r))
    check("A.header.encode", encode_request(10, 0, 4, "client3", {"key": "foo"}) == full)
    check("A.header.peek", peek_request_header(full) == (10, 0, 4))

    # tests/test_protocol.py::test_decode_fetch_response_partial (message set bytes copied verbatim)
    mset = b"".join([
        i64(0), i32(18), struct.pack(">i", 1474775406), struct.pack(">bb", 0, 0), struct.pack(">i", 2), b"k1",
        struct.pack(">i", 2), b"v1", i64(1), i32(24), struct.pack(">i", -16383415), struct.pack(">bb", 0, 0),
        struct.pack(">i", 2), b"k2", struct.pack(">i", 8), b"ar"])
    # NOTE: the test pins "MessageSet size" 52 although the bytes that follow are 60 long (2 x 30); the
    # library's decoder silently ignores the resulting trailing bytes, so the test still passes.  A
    # well-formed message needs 60, which is what is checked here; the literal as pinned must be REJECTED.
    assert len(mset) == 60
    pinned = b"".join([i32(1), s16("foobar"), i32(2),
                       i32(0), i16(0), i64(1234), i32(52), mset,
                       i32(1), i16(0), i64(2345), i32(52), mset])
    try:
        decode_body(1, 0, "response", pinned)
        check("A.fetch_v0.pinned_malformed", False, "malformed literal accepted")
    except WireError:
        pass
    encoded = b"".join([i32(1), s16("foobar"), i32(2),
                        i32(0), i16(0), i64(1234), i32(60), mset,
                        i32(1), i16(0), i64(2345), i32(60), mset])
    body = decode_body(1, 0, "response", encoded)
    want = {"responses": [{"topic": "foobar", "partitions": [
        {"partition_index": 0, "error_code": 0, "high_watermark": 1234, "records": mset},
        {"partition_index": 1, "error_code": 0, "high_watermark": 2345, "records": mset}]}]}
    check("A.fetch_v0.decode", body == want, repr(body))
    check("A.fetch_v0.encode", encode_body(1, 0, "response", want) == encoded)

    # tests/test_requests.py expected structs, as bytes written by hand from the protocol guide
    vec = [
        # DeleteTopicsRequest_v0(["a","b"], 1000)
        (20, 0, "request", {"topic_names": ["a", "b"], "timeout_ms": 1000},
         i32(2) + s16("a") + s16("b") + i32(1000)),
        # DescribeGroupsRequest_v3(["a","b"], True)
        (15, 3, "request", {"groups": ["a", "b"], "include_authorized_operations": True},
         i32(2) + s16("a") + s16("b") + b"\x01"),
        # SaslAuthenticateRequest_v1(b"abc")
        (36, 1, "request", {"auth_bytes": b"abc"}, b32(b"abc")),
        # SyncGroupRequest_v3("g", 1, "m", "", [("m", b"assign")])  (group_instance_id "" as the test passes it)
        (14, 3, "request", {"group_id": "g", "generation_id": 1, "member_id": "m", "group_instance_id": "",
                            "assignments": [{"member_id": "m", "assignment": b"assign"}]},
         s16("g") + i32(1) + s16("m") + s16("") + i32(1) + s16("m") + b32(b"assign")),
        # ProduceRequest_v0(1, 100, [("t", [(0, b"data")])])
        (0, 0, "request", {"acks": 1, "timeout_ms": 100, "topic_data": [
            {"name": "t", "partition_data": [{"index": 0, "records": b"data"}]}]},
         i16(1) + i32(100) + i32(1) + s16("t") + i32(1) + i32(0) + b32(b"data")),
        # ProduceRequest_v3(None, ...) and ("tx", ...)
        (0, 3, "request", {"transactional_id": None, "acks": 1, "timeout_ms": 100, "topic_data": [
            {"name": "t", "partition_data": [{"index": 0, "records": b"data"}]}]},
         i16(-1) + i16(1) + i32(100) + i32(1) + s16("t") + i32(1) + i32(0) + b32(b"data")),
        (0, 7, "request", {"transactional_id": "tx", "acks": -1, "timeout_ms": 100, "topic_data": [
            {"name": "t", "partition_data": [{"index": 0, "records": None}]}]},
         s16("tx") + i16(-1) + i32(100) + i32(1) + s16("t") + i32(1) + i32(0) + i32(-1)),
        # JoinGroup v5 with a null group_instance_id, protocols [("range", b"meta")]
        (11, 5, "request", {"group_id": "g", "session_timeout_ms": 10, "rebalance_timeout_ms": 20, "member_id": "m",
                            "group_instance_id": None, "protocol_type": "consumer",
                            "protocols": [{"name": "range", "metadata": b"meta"}]},
         s16("g") + i32(10) + i32(20) + s16("m") + i16(-1) + s16("consumer") + i32(1) + s16("range") + b32(b"meta")),
        # Metadata v1 null topics (= all topics), v0 empty (= all topics in v0)
        (3, 1, "request", {"topics": None}, i32(-1)),
        (3, 4, "request", {"topics": [{"name": "t"}], "allow_auto_topic_creation": False}, i32(1) + s16("t") + b"\x00"),
        # ListOffsets v0 / v1 / v2 / v4
        (2, 0, "request", {"replica_id": -1, "topics": [{"name": "t", "partitions": [
            {"partition_index": 3, "timestamp": -2, "max_num_offsets": 1}]}]},
         i32(-1) + i32(1) + s16("t") + i32(1) + i32(3) + i64(-2) + i32(1)),
        (2, 2, "request", {"replica_id": -1, "isolation_level": 1, "topics": [{"name": "t", "partitions": [
            {"partition_index": 3, "timestamp": -1}]}]},
         i32(-1) + i8(1) + i32(1) + s16("t") + i32(1) + i32(3) + i64(-1)),
        (2, 4, "request", {"replica_id": -1, "isolation_level": 0, "topics": [{"name": "t", "partitions": [
            {"partition_index": 3, "current_leader_epoch": 7, "timestamp": 5}]}]},
         i32(-1) + i8(0) + i32(1) + s16("t") + i32(1) + i32(3) + i32(7) + i64(5)),
        (2, 0, "response", {"topics": [{"name": "t", "partitions": [
            {"partition_index": 3, "error_code": 0, "old_style_offsets": [9, 4]}]}]},
         i32(1) + s16("t") + i32(1) + i32(3) + i16(0) + i32(2) + i64(9) + i64(4)),
        (2, 1, "response", {"topics": [{"name": "t", "partitions": [
            {"partition_index": 3, "error_code": 0, "timestamp": -1, "offset": 42}]}]},
         i32(1) + s16("t") + i32(1) + i32(3) + i16(0) + i64(-1) + i64(42)),
        # FindCoordinator v1 request / response
        (10, 1, "request", {"key": "g", "key_type": 1}, s16("g") + i8(1)),
        (10, 1, "response", {"throttle_time_ms": 0, "error_code": 15, "error_message": None, "node_id": -1,
                             "host": "", "port": -1}, i32(0) + i16(15) + i16(-1) + i32(-1) + s16("") + i32(-1)),
        # Fetch v4 response with aborted transactions, v11 request
        (1, 4, "response", {"throttle_time_ms": 1, "responses": [{"topic": "t", "partitions": [
            {"partition_index": 0, "error_code": 0, "high_watermark": 10, "last_stable_offset": 8,
             "aborted_transactions": [{"producer_id": 5, "first_offset": 2}], "records": b"xy"},
            {"partition_index": 1, "error_code": 1, "high_watermark": -1, "last_stable_offset": -1,
             "aborted_transactions": None, "records": None}]}]},
         i32(1) + i32(1) + s16("t") + i32(2)
         + i32(0) + i16(0) + i64(10) + i64(8) + i32(1) + i64(5) + i64(2) + b32(b"xy")
         + i32(1) + i16(1) + i64(-1) + i64(-1) + i32(-1) + i32(-1)),
        (1, 11, "request", {"replica_id": -1, "max_wait_ms": 500, "min_bytes": 1, "max_bytes": 1000,
                            "isolation_level": 1, "session_id": 0, "session_epoch": -1,
                            "topics": [{"topic": "t", "partitions": [
                                {"partition": 2, "current_leader_epoch": -1, "fetch_offset": 77,
                                 "log_start_offset": -1, "partition_max_bytes": 100}]}],
                            "forgotten_topics_data": [{"topic": "u", "partitions": [1, 2]}], "rack_id": "r"},
         i32(-1) + i32(500) + i32(1) + i32(1000) + i8(1) + i32(0) + i32(-1) + i32(1) + s16("t") + i32(1)
         + i32(2) + i32(-1) + i64(77) + i64(-1) + i32(100) + i32(1) + s16("u") + i32(2) + i32(1) + i32(2) + s16("r")),
        # OffsetCommit v1 (commit_timestamp only there), v2 (retention), OffsetFetch v2 null topics + response
        (8, 1, "request", {"group_id": "g", "generation_id": 3, "member_id": "m", "topics": [
            {"name": "t", "partitions": [{"partition_index": 0, "committed_offset": 5, "commit_timestamp": -1,
                                          "committed_metadata": None}]}]},
         s16("g") + i32(3) + s16("m") + i32(1) + s16("t") + i32(1) + i32(0) + i64(5) + i64(-1) + i16(-1)),
        (8, 2, "request", {"group_id": "g", "generation_id": 3, "member_id": "m", "retention_time_ms": -1, "topics": [
            {"name": "t", "partitions": [{"partition_index": 0, "committed_offset": 5, "committed_metadata": "x"}]}]},
         s16("g") + i32(3) + s16("m") + i64(-1) + i32(1) + s16("t") + i32(1) + i32(0) + i64(5) + s16("x")),
        (9, 2, "request", {"group_id": "g", "topics": None}, s16("g") + i32(-1)),
        (9, 3, "response", {"throttle_time_ms": 2, "topics": [{"name": "t", "partitions": [
            {"partition_index": 0, "committed_offset": -1, "metadata": "", "error_code": 0}]}], "error_code": 16},
         i32(2) + i32(1) + s16("t") + i32(1) + i32(0) + i64(-1) + s16("") + i16(0) + i16(16)),
        # Metadata v5 response
        (3, 5, "response", {"throttle_time_ms": 0, "brokers": [{"node_id": 1, "host": "h", "port": 9092, "rack": None}],
                            "cluster_id": "c", "controller_id": 1, "topics": [
                                {"error_code": 0, "name": "t", "is_internal": False, "partitions": [
                                    {"error_code": 0, "partition_index": 0, "leader_id": 1, "replica_nodes": [1],
                                     "isr_nodes": [1], "offline_replicas": []}]}]},
         i32(0) + i32(1) + i32(1) + s16("h") + i32(9092) + i16(-1) + s16("c") + i32(1) + i32(1) + i16(0) + s16("t")
         + b"\x00" + i32(1) + i16(0) + i32(0) + i32(1) + i32(1) + i32(1) + i32(1) + i32(1) + i32(0)),
        # ApiVersions v1 response, Produce v8 response
        (18, 1, "response", {"error_code": 0, "api_keys": [{"api_key": 0, "min_version": 0, "max_version": 8}],
                             "throttle_time_ms": 0}, i16(0) + i32(1) + i16(0) + i16(0) + i16(8) + i32(0)),
        (0, 8, "response", {"responses": [{"name": "t", "partition_responses": [
            {"index": 0, "error_code": 87, "base_offset": -1, "log_append_time_ms": -1, "log_start_offset": 0,
             "record_errors": [{"batch_index": 1, "batch_index_error_message": None}], "error_message": "bad"}]}],
            "throttle_time_ms": 0},
         i32(1) + s16("t") + i32(1) + i32(0) + i16(87) + i64(-1) + i64(-1) + i64(0) + i32(1) + i32(1) + i16(-1)
         + s16("bad") + i32(0)),
        # InitProducerId v0
        (22, 0, "request", {"transactional_id": None, "transaction_timeout_ms": 60000}, i16(-1) + i32(60000)),
        (22, 0, "response", {"throttle_time_ms": 0, "error_code": 0, "producer_id": 1000, "producer_epoch": 2},
         i32(0) + i16(0) + i64(1000) + i16(2)),
        # TxnOffsetCommit v0, AddPartitionsToTxn v0, EndTxn v0
        (28, 0, "request", {"transactional_id": "tx", "group_id": "g", "producer_id": 1, "producer_epoch": 0, "topics": [
            {"name": "t", "partitions": [{"partition_index": 0, "committed_offset": 9, "committed_metadata": ""}]}]},
         s16("tx") + s16("g") + i64(1) + i16(0) + i32(1) + s16("t") + i32(1) + i32(0) + i64(9) + s16("")),
        (24, 0, "request", {"transactional_id": "tx", "producer_id": 1, "producer_epoch": 0,
                            "topics": [{"name": "t", "partitions": [0, 1]}]},
         s16("tx") + i64(1) + i16(0) + i32(1) + s16("t") + i32(2) + i32(0) + i32(1)),
        (24, 0, "response", {"throttle_time_ms": 0, "results": [{"name": "t", "results": [
            {"partition_index": 0, "error_code": 0}]}]}, i32(0) + i32(1) + s16("t") + i32(1) + i32(0) + i16(0)),
        (26, 0, "request", {"transactional_id": "tx", "producer_id": 1, "producer_epoch": 0, "committed": True},
         s16("tx") + i64(1) + i16(0) + b"\x01"),
    ]
    for k, v, kind, body, raw in vec:
        name = f"A.{API_NAMES[k]}.v{v}.{kind}"
        try:
            enc = encode_body(k, v, kind, body, strict=True)
            check(name + ".encode", enc == raw, f"\n  got  {enc.hex()}\n  want {raw.hex()}")
            dec = decode_body(k, v, kind, raw)
            full = default_body(k, v, kind)
            full.update(body)
            # nested: compare by re-encoding (defaults may be omitted in `body`)
            check(name + ".decode", encode_body(k, v, kind, dec) == raw and _subset(body, dec), repr(dec))
        except WireError as e:
            check(name, False, f"WireError {e}")


def _subset(a, b):
    if isinstance(a, dict):
        return isinstance(b, dict) and all(k in b and _subset(v, b[k]) for k, v in a.items())
    if isinstance(a, list):
        return isinstance(b, list) and len(a) == len(b) and all(_subset(x, y) for x, y in zip(a, b))
    return a == b


def part_b():
    # DeleteRecords v2 (first flexible): header v2, compact arrays/strings, tagged fields everywhere
    body = {"topics": [{"name": "t", "partitions": [{"partition_index": 1, "offset": 5}]}], "timeout_ms": 1000}
    raw_body = (b"\x02" + b"\x02t" + b"\x02" + i32(1) + i64(5) + b"\x00" + b"\x00" + i32(1000) + b"\x00")
    raw = i16(21) + i16(2) + i32(7) + s16("cid") + b"\x00" + raw_body
    check("B.DeleteRecords.v2.request", encode_request(21, 2, 7, "cid", body) == raw,
          encode_request(21, 2, 7, "cid", body).hex())
    r = decode_request(raw)
    check("B.DeleteRecords.v2.request.decode", r.header_version == 2 and r.body == body and r.client_id == "cid", repr(r))
    # null client id in header v2 is int16 -1 (not compact)
    raw = i16(21) + i16(2) + i32(7) + i16(-1) + b"\x00" + raw_body
    check("B.header_v2.null_client", decode_request(raw).client_id is None and
          encode_request(21, 2, 7, None, body) == raw)
    rbody = {"throttle_time_ms": 0, "topics": [{"name": "t", "partitions": [
        {"partition_index": 1, "low_watermark": 5, "error_code": 0}]}]}
    rraw = i32(7) + b"\x00" + i32(0) + b"\x02" + b"\x02t" + b"\x02" + i32(1) + i64(5) + i16(0) + b"\x00\x00\x00"
    check("B.DeleteRecords.v2.response", encode_response(21, 2, 7, rbody) == rraw, encode_response(21, 2, 7, rbody).hex())
    check("B.DeleteRecords.v2.response.decode", decode_response(21, 2, rraw) == (7, rbody))
    # non-empty tagged fields: tag, size, data
    tb = dict(rbody, _tagged_fields={0: b"ab", 5: b""})
    traw = i32(7) + b"\x00" + i32(0) + b"\x02" + b"\x02t" + b"\x02" + i32(1) + i64(5) + i16(0) + b"\x00\x00" \
        + b"\x02" + b"\x00\x02ab" + b"\x05\x00"
    check("B.tagged.encode", encode_response(21, 2, 7, tb) == traw, encode_response(21, 2, 7, tb).hex())
    check("B.tagged.decode", decode_response(21, 2, traw) == (7, tb))
    # ListPartitionReassignments v0: null compact array = 0
    check("B.ListPartitionReassignments.null", encode_body(46, 0, "request", {"timeout_ms": 5, "topics": None})
          == i32(5) + b"\x00" + b"\x00")
    # ApiVersions v3: request header v2, response header v0 although the body is flexible
    raw = i16(18) + i16(3) + i32(1) + s16("c") + b"\x00" + b"\x02a" + b"\x02b" + b"\x00"
    check("B.ApiVersions.v3.request", encode_request(18, 3, 1, "c", {"client_software_name": "a",
                                                                      "client_software_version": "b"}) == raw)
    rb = {"error_code": 0, "api_keys": [{"api_key": 18, "min_version": 0, "max_version": 3}], "throttle_time_ms": 0}
    rraw = i32(1) + i16(0) + b"\x02" + i16(18) + i16(0) + i16(3) + b"\x00" + i32(0) + b"\x00"
    check("B.ApiVersions.v3.response", encode_response(18, 3, 1, rb) == rraw, encode_response(18, 3, 1, rb).hex())
    check("B.ApiVersions.v3.response.decode", decode_response(18, 3, rraw) == (1, rb))
    # unsigned varint boundaries for compact string lengths (len+1): 126->7f, 127->80 01, 16382->ff 7f, 16383->80 80 01
    for n, pre in ((0, b"\x01"), (126, b"\x7f"), (127, b"\x80\x01"), (16382, b"\xff\x7f"), (16383, b"\x80\x80\x01")):
        enc = encode_body(46, 0, "request", {"timeout_ms": 0, "topics": [{"name": "x" * n, "partition_indexes": []}]})
        check(f"B.uvarint.{n}", enc == i32(0) + b"\x02" + pre + b"x" * n + b"\x01\x00\x00", enc[:12].hex())
    # DescribeClientQuotas float64
    rb = {"throttle_time_ms": 0, "error_code": 0, "error_message": None, "entries": [
        {"entity": [{"entity_type": "user", "entity_name": None}], "values": [{"key": "k", "value": 1.5}]}]}
    rraw = i32(0) + i16(0) + i16(-1) + i32(1) + i32(1) + s16("user") + i16(-1) + i32(1) + s16("k") + struct.pack(">d", 1.5)
    check("B.DescribeClientQuotas", encode_body(48, 0, "response", rb) == rraw and decode_body(48, 0, "response", rraw) == rb)
    # strictness
    try:
        encode_body(0, 2, "request", {"transactional_id": "x", "acks": 1}, strict=True)
        check("B.strict", False, "no error")
    except WireError:
        pass
    check("B.lenient", encode_body(0, 2, "request", {"transactional_id": "x", "acks": 1}) == i16(1) + i32(0) + i32(0))
    check("B.strict.default_ok", encode_body(0, 2, "request", {"transactional_id": None, "acks": 1}, strict=True)
          == i16(1) + i32(0) + i32(0))
    for bad in ({"acks": 1 << 15}, {"acks": "1"}, {"topic_data": [{"name": None}]}, {"topic_data": None}):
        try:
            encode_body(0, 3, "request", bad)
            check(f"B.reject.{bad}", False, "no error")
        except WireError:
            pass


def _populate(fields, variant, depth=0):
    """A body with every field non-default; arrays have 2 elements (variant 0) / nullable fields null (variant 1)."""
    out = {}
    for i, f in enumerate(fields):
        if f.nullable and variant == 1:
            out[f.name] = None
        elif f.type == "array":
            if f.elem == "struct":
                out[f.name] = [_populate(f.fields, variant, depth + 1), _populate(f.fields, 1 - variant, depth + 1)]
            else:
                out[f.name] = [_prim(f.elem, i), _prim(f.elem, i + 1)]
        else:
            out[f.name] = _prim(f.type, i + depth)
    return out


def _prim(t, i):
    return {"int8": -3 - i, "int16": -300 - i, "int32": 70000 + i, "int64": -(1 << 40) - i, "uint16": 60000,
            "uint32": 1 << 31, "float64": 0.5 + i, "bool": True, "string": "sé" + "x" * i, "bytes": b"\x00\xff" * (i + 1),
            "records": b"\x01" * i, "uuid": bytes(range(16))}[t]


def part_c():
    n = 0
    for name, k in sorted(API_KEYS.items(), key=lambda x: x[1]):
        for v in versions(k):
            for kind in ("request", "response"):
                sch = schema(k, v, kind)
                bodies = [default_body(k, v, kind), _populate(sch.fields, 0), _populate(sch.fields, 1)]
                if sch.flexible:
                    b = _populate(sch.fields, 0)
                    b["_tagged_fields"] = {1: b"z"}
                    bodies.append(b)
                for bi, body in enumerate(bodies):
                    n += 1
                    tag = f"C.{name}.v{v}.{kind}.{bi}"
                    try:
                        enc = encode_body(k, v, kind, body, strict=True)
                        dec = decode_body(k, v, kind, enc)
                    except WireError as e:
                        check(tag, False, f"WireError {e}")
                        continue
                    check(tag + ".roundtrip", dec == body, f"\n {body}\n {dec}")
                    if bi == 1:
                        for cut in range(len(enc)):
                            try:
                                decode_body(k, v, kind, enc[:cut])
                                check(tag + f".prefix{cut}", False, "prefix decoded")
                                break
                            except WireError:
                                pass
                        try:
                            decode_body(k, v, kind, enc + b"\x00")
                            check(tag + ".extra", False, "extra byte accepted")
                        except WireError:
                            pass
                        if kind == "request":
                            full = encode_request(k, v, 2 ** 31 - 1, "cli", body)
                            r = decode_request(full)
                            check(tag + ".req", (r.api_key, r.version, r.correlation_id, r.client_id, r.body) ==
                                  (k, v, 2 ** 31 - 1, "cli", body))
                        else:
                            full = encode_response(k, v, -5, body)
                            check(tag + ".rsp", decode_response(k, v, full) == (-5, body))
    return n


def main():
    part_a()
    part_b()
    n = part_c()
    if FAIL:
        print(f"kwire selftest: {len(FAIL)} FAILED")
        return 1
    print(f"kwire selftest: ok ({len(API_KEYS)} APIs, {sum(len(versions(k)) for k in API_KEYS.values())} api-versions, "
          f"{n} round-trip bodies)")
    return 0


if __name__ == "__main__":
    sys.exit(main())
