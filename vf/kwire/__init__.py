"""vf.kwire - independent Kafka wire-protocol codec (hand-written tables + a tiny interpreter).

Written from the Kafka protocol specification (the message JSON definitions of
Apache Kafka), NOT from aiokafka's protocol classes.  Two users: the simulated
broker (vf.simkafka) and the C11 reference oracle.

Public API
----------
API_KEYS : dict[str, int]          "Produce" -> 0, ...
API_NAMES: dict[int, str]          0 -> "Produce", ...
versions(api_key) -> range         versions the tables know for that API
WireError                          every encode/decode failure (short data, leftover bytes, bad value)

encode_request(api_key, version, correlation_id, client_id, body, strict=False, header_tags=None) -> bytes
    request header (v1, or v2 when the version is flexible) + body, WITHOUT the 4-byte size prefix.
decode_request(data) -> Req        attributes api_key, version, correlation_id, client_id, body (dict),
                                   header_version, header_tags; WireError if bytes are left over or short,
                                   or if api_key/version is not in the tables (use peek_request_header
                                   first if you need to answer UNSUPPORTED_VERSION).
peek_request_header(data) -> (api_key, version, correlation_id)      never looks past the first 8 bytes
encode_response(api_key, version, correlation_id, body, strict=False, header_tags=None) -> bytes
    response header (v0, or v1 when flexible; ApiVersions is always v0) + body, no size prefix.
decode_response(api_key, version, data) -> (correlation_id, body)
encode_body(api_key, version, kind, body, strict=False, trace=None) -> bytes     body only (no header)
encode_primitive(type, value, flexible=False, nullable=False) / encode_tagged_fields({tag: bytes}) -> bytes
decode_body(api_key, version, kind, data) -> dict                   body only; all bytes must be consumed
request_header_version(api_key, version) -> 1|2 ; response_header_version(api_key, version) -> 0|1
is_flexible(api_key, version) -> bool
default_body(api_key, version, kind) -> dict    kind in {"request","response"}; every field of that version
    set to its default: the explicit default of the Kafka JSON if there is one (e.g. replica_id -1,
    log_append_time_ms -1), else None when the field is nullable at that version, else 0 / False / "" /
    b"" / [] (arrays empty, so nested structs do not appear).
default_struct(api_key, version, kind, path) -> dict   defaults of a nested struct, path like "topic_data.partition_data"
schema(api_key, version, kind) -> VSchema       .flexible, .fields = [VField(name, type, nullable, default, fields, elem)]
    type is one of int8 int16 int32 int64 uint16 uint32 float64 bool string bytes records uuid array;
    for arrays `elem` is the primitive element type or "struct" (then .fields holds the element fields).

Bodies are plain dicts / lists.  Field names are Kafka's JSON field names in snake_case.  `records`
and `bytes` values are raw `bytes` (or None where nullable).  Encoders accept dicts that omit fields
(defaults are used).  A key that the version does not have is ignored, unless strict=True, in which case
a non-default value for it (or an unknown key) raises WireError.  In flexible versions every struct may
carry "_tagged_fields": {tag:int -> raw bytes}; decoders include that key only when it is non-empty.
"""
import struct as _struct

from .tables import MESSAGES

__all__ = [
    "API_KEYS", "API_NAMES", "versions", "WireError", "Req", "encode_request", "decode_request",
    "peek_request_header", "encode_response", "decode_response", "encode_body", "decode_body",
    "default_body", "default_struct", "schema", "is_flexible", "request_header_version",
    "response_header_version", "uvarint", "VField", "VSchema", "encode_primitive", "encode_tagged_fields",
]


class WireError(Exception):
    pass


API_KEYS = {m["name"]: m["key"] for m in MESSAGES}
API_NAMES = {m["key"]: m["name"] for m in MESSAGES}
_BY_KEY = {m["key"]: m for m in MESSAGES}

_INF = 1 << 30


def _vrange(spec):
    """'0+' -> (0, inf); '3-7' -> (3,7); '2' -> (2,2); None/'none' -> empty."""
    if spec is None or spec == "none":
        return (1, 0)
    if isinstance(spec, tuple):
        return spec
    spec = str(spec)
    if spec.endswith("+"):
        return (int(spec[:-1]), _INF)
    if "-" in spec:
        a, b = spec.split("-")
        return (int(a), int(b))
    return (int(spec), int(spec))


def _in(spec, v):
    lo, hi = _vrange(spec)
    return lo <= v <= hi


def _msg(api_key):
    m = _BY_KEY.get(api_key)
    if m is None:
        raise WireError(f"unknown api_key {api_key!r}")
    return m


def versions(api_key):
    lo, hi = _vrange(_msg(api_key)["versions"])
    return range(lo, hi + 1)


def _check_version(api_key, version):
    m = _msg(api_key)
    if not _in(m["versions"], version):
        raise WireError(f"{m['name']} v{version} is not in the tables (known {m['versions']})")
    return m


def is_flexible(api_key, version):
    return _in(_check_version(api_key, version)["flexible"], version)


def request_header_version(api_key, version):
    return 2 if is_flexible(api_key, version) else 1


def response_header_version(api_key, version):
    if api_key == 18:  # ApiVersions: the reply must be parseable before the version is known
        _check_version(api_key, version)
        return 0
    return 1 if is_flexible(api_key, version) else 0


# --------------------------------------------------------------------------- resolved schema

_INT = {
    "int8": (">b", -(1 << 7), (1 << 7) - 1),
    "int16": (">h", -(1 << 15), (1 << 15) - 1),
    "int32": (">i", -(1 << 31), (1 << 31) - 1),
    "int64": (">q", -(1 << 63), (1 << 63) - 1),
    "uint16": (">H", 0, (1 << 16) - 1),
    "uint32": (">I", 0, (1 << 32) - 1),
}
_SIZE = {"int8": 1, "int16": 2, "int32": 4, "int64": 8, "uint16": 2, "uint32": 4, "float64": 8, "bool": 1, "uuid": 16}
_PRIMS = set(_INT) | {"float64", "bool", "string", "bytes", "records", "uuid"}
_NODEFAULT = object()


class VField:
    __slots__ = ("name", "type", "nullable", "default", "fields", "elem")

    def __init__(self, name, type_, nullable, default, fields, elem):
        self.name, self.type, self.nullable, self.default, self.fields, self.elem = (
            name, type_, nullable, default, fields, elem)

    def __repr__(self):
        t = self.type if self.type != "array" else f"[]{self.elem}"
        s = f"{self.name}:{t}{'?' if self.nullable else ''}"
        if self.fields is not None:
            s += "{" + ", ".join(map(repr, self.fields)) + "}"
        return s


class VSchema:
    __slots__ = ("flexible", "fields", "name")

    def __init__(self, name, flexible, fields):
        self.name, self.flexible, self.fields = name, flexible, fields

    def __repr__(self):
        return f"<{self.name}{' flexible' if self.flexible else ''}: " + ", ".join(map(repr, self.fields)) + ">"


def _natural_default(type_, nullable):
    if nullable:
        return None
    if type_ in _INT:
        return 0
    if type_ == "float64":
        return 0.0
    if type_ == "bool":
        return False
    if type_ == "string":
        return ""
    if type_ in ("bytes", "records"):
        return b""
    if type_ == "uuid":
        return b"\x00" * 16
    if type_ == "array":
        return []
    raise AssertionError(type_)


def _resolve(fields, v):
    out = []
    for f in fields:
        if not _in(f.get("versions", "0+"), v):
            continue
        t = f["type"]
        sub = elem = None
        if isinstance(t, list):
            type_, elem, sub = "array", "struct", _resolve(t, v)
        elif t.startswith("[]"):
            type_, elem = "array", t[2:]
            assert elem in _PRIMS, t
        else:
            type_ = t
            assert t in _PRIMS, t
        nullable = _in(f.get("nullable"), v)
        d = f.get("default", _NODEFAULT)
        if d is _NODEFAULT or (d is None and not nullable):
            d = _natural_default(type_, nullable)
        out.append(VField(f["name"], type_, nullable, d, sub, elem))
    return out


_SCHEMA_CACHE = {}


def schema(api_key, version, kind):
    k = (api_key, version, kind)
    s = _SCHEMA_CACHE.get(k)
    if s is None:
        m = _check_version(api_key, version)
        if kind not in ("request", "response"):
            raise WireError(f"kind must be 'request' or 'response', not {kind!r}")
        s = _SCHEMA_CACHE[k] = VSchema(f"{m['name']}{kind.capitalize()}_v{version}",
                                       _in(m["flexible"], version), _resolve(m[kind], version))
    return s


def _copy_default(d):
    if isinstance(d, list):
        return list(d)
    if isinstance(d, dict):
        return dict(d)
    return d


def _defaults(fields):
    return {f.name: _copy_default(f.default) for f in fields}


def default_body(api_key, version, kind):
    return _defaults(schema(api_key, version, kind).fields)


def default_struct(api_key, version, kind, path):
    fields = schema(api_key, version, kind).fields
    for part in path.split("."):
        for f in fields:
            if f.name == part and f.fields is not None:
                fields = f.fields
                break
        else:
            raise WireError(f"no struct array {part!r} in {path!r}")
    return _defaults(fields)


# --------------------------------------------------------------------------- primitives

def uvarint(n):
    if not 0 <= n <= 0xFFFFFFFF:
        raise WireError(f"unsigned varint out of range: {n}")
    out = bytearray()
    while n >= 0x80:
        out.append((n & 0x7F) | 0x80)
        n >>= 7
    out.append(n)
    return bytes(out)


class _Reader:
    __slots__ = ("buf", "pos")

    def __init__(self, buf):
        self.buf = bytes(buf)
        self.pos = 0

    def take(self, n, what=""):
        if n < 0 or self.pos + n > len(self.buf):
            raise WireError(f"short data: need {n} bytes for {what} at offset {self.pos}, have {len(self.buf) - self.pos}")
        b = self.buf[self.pos:self.pos + n]
        self.pos += n
        return b

    def uvarint(self, what=""):
        val = shift = 0
        for i in range(5):
            b = self.take(1, what)[0]
            val |= (b & 0x7F) << shift
            if not b & 0x80:
                if val > 0xFFFFFFFF:
                    raise WireError(f"unsigned varint overflow in {what}")
                return val
            shift += 7
        raise WireError(f"unsigned varint longer than 5 bytes in {what}")

    def left(self):
        return len(self.buf) - self.pos


def _enc_prim(t, val, flex, nullable, path, out):
    if t in _INT:
        fmt, lo, hi = _INT[t]
        if isinstance(val, bool) or not isinstance(val, int) or not lo <= val <= hi:
            raise WireError(f"{path}: {val!r} is not a valid {t}")
        out += _struct.pack(fmt, val)
    elif t == "bool":
        if val not in (True, False, 0, 1):
            raise WireError(f"{path}: {val!r} is not a bool")
        out.append(1 if val else 0)
    elif t == "float64":
        if not isinstance(val, (int, float)) or isinstance(val, bool):
            raise WireError(f"{path}: {val!r} is not a float64")
        out += _struct.pack(">d", val)
    elif t == "uuid":
        if not isinstance(val, (bytes, bytearray)) or len(val) != 16:
            raise WireError(f"{path}: uuid must be 16 raw bytes")
        out += val
    elif t == "string":
        if val is None:
            if not nullable:
                raise WireError(f"{path}: null for non-nullable string")
            out += b"\x00" if flex else b"\xff\xff"
            return
        if not isinstance(val, str):
            raise WireError(f"{path}: {val!r} is not a str")
        try:
            b = val.encode("utf-8")
        except UnicodeEncodeError as e:
            raise WireError(f"{path}: {e}") from None
        if len(b) > 0x7FFF:
            raise WireError(f"{path}: string of {len(b)} bytes exceeds int16 length")
        out += uvarint(len(b) + 1) if flex else _struct.pack(">h", len(b))
        out += b
    elif t in ("bytes", "records"):
        if val is None:
            if not nullable:
                raise WireError(f"{path}: null for non-nullable {t}")
            out += b"\x00" if flex else b"\xff\xff\xff\xff"
            return
        if not isinstance(val, (bytes, bytearray, memoryview)):
            raise WireError(f"{path}: {type(val).__name__} is not bytes")
        val = bytes(val)
        if len(val) > 0x7FFFFFFF:
            raise WireError(f"{path}: too long")
        out += uvarint(len(val) + 1) if flex else _struct.pack(">i", len(val))
        out += val
    else:
        raise AssertionError(t)


def _dec_prim(t, r, flex, nullable, path):
    if t in _INT:
        return _struct.unpack(_INT[t][0], r.take(_SIZE[t], path))[0]
    if t == "bool":
        return r.take(1, path)[0] != 0
    if t == "float64":
        return _struct.unpack(">d", r.take(8, path))[0]
    if t == "uuid":
        return r.take(16, path)
    if t == "string":
        n = r.uvarint(path) - 1 if flex else _struct.unpack(">h", r.take(2, path))[0]
        if n < 0:
            if n != -1:
                raise WireError(f"{path}: string length {n}")
            if not nullable:
                raise WireError(f"{path}: null for non-nullable string")
            return None
        if flex and n > 0x7FFF:
            raise WireError(f"{path}: string length {n} exceeds 32767")
        try:
            return r.take(n, path).decode("utf-8")
        except UnicodeDecodeError as e:
            raise WireError(f"{path}: {e}") from None
    if t in ("bytes", "records"):
        n = r.uvarint(path) - 1 if flex else _struct.unpack(">i", r.take(4, path))[0]
        if n < 0:
            if n != -1:
                raise WireError(f"{path}: bytes length {n}")
            if not nullable:
                raise WireError(f"{path}: null for non-nullable {t}")
            return None
        return r.take(n, path)
    raise AssertionError(t)


def _enc_tags(tags, path, out):
    if not isinstance(tags, dict):
        raise WireError(f"{path}: _tagged_fields must be a dict tag -> bytes")
    out += uvarint(len(tags))
    for tag in sorted(tags):
        val = tags[tag]
        if isinstance(tag, bool) or not isinstance(tag, int) or tag < 0 or not isinstance(val, (bytes, bytearray)):
            raise WireError(f"{path}: bad tagged field {tag!r}")
        out += uvarint(tag)
        out += uvarint(len(val))
        out += val


def _dec_tags(r, path):
    n = r.uvarint(path)
    tags = {}
    prev = -1
    for _ in range(n):
        tag = r.uvarint(path)
        if tag <= prev:
            raise WireError(f"{path}: tagged fields out of order ({tag} after {prev})")
        prev = tag
        size = r.uvarint(path)
        tags[tag] = r.take(size, path)
    return tags


def _enc_struct(fields, raw_fields, v, flex, body, out, strict, path, trace=None):
    if not isinstance(body, dict):
        raise WireError(f"{path or 'body'}: expected dict, got {type(body).__name__}")
    if strict:
        known = {f.name for f in fields}
        for k, val in body.items():
            if k in known or k == "_tagged_fields":
                continue
            rf = next((x for x in raw_fields if x["name"] == k), None)
            if rf is None:
                raise WireError(f"{path}{k}: no such field at any version")
            t = rf["type"]
            type_ = "array" if isinstance(t, list) or t.startswith("[]") else t
            d = rf.get("default", _NODEFAULT)
            dflts = [d] if d is not _NODEFAULT else [_natural_default(type_, False), None if type_ != "array" else []]
            if not any(val == x and (not isinstance(val, bool) or isinstance(x, bool)) for x in dflts):
                raise WireError(f"{path}{k}: version {v} has no such field and the value {val!r} is not the default")
    for f in fields:
        p = path + f.name
        val = body.get(f.name, _NODEFAULT)
        if val is _NODEFAULT:
            val = f.default
        if trace is not None:
            trace.append((len(out), p))
        if f.type != "array":
            _enc_prim(f.type, val, flex, f.nullable, p, out)
            continue
        if val is None:
            if not f.nullable:
                raise WireError(f"{p}: null for non-nullable array")
            out += b"\x00" if flex else b"\xff\xff\xff\xff"
            continue
        if not isinstance(val, (list, tuple)):
            raise WireError(f"{p}: expected list, got {type(val).__name__}")
        out += uvarint(len(val) + 1) if flex else _struct.pack(">i", len(val))
        if f.elem == "struct":
            rsub = next(x for x in raw_fields if x["name"] == f.name)["type"]
            for i, item in enumerate(val):
                _enc_struct(f.fields, rsub, v, flex, item, out, strict, f"{p}[{i}].", trace)
        else:
            for i, item in enumerate(val):
                if trace is not None:
                    trace.append((len(out), f"{p}[{i}]"))
                _enc_prim(f.elem, item, flex, False, f"{p}[{i}]", out)
    if flex:
        if trace is not None:
            trace.append((len(out), path + "_tagged_fields"))
        _enc_tags(body.get("_tagged_fields") or {}, path + "_tagged_fields", out)
    elif strict and body.get("_tagged_fields"):
        raise WireError(f"{path}_tagged_fields: version {v} is not flexible")


def _dec_struct(fields, flex, r, path):
    body = {}
    for f in fields:
        p = path + f.name
        if f.type != "array":
            body[f.name] = _dec_prim(f.type, r, flex, f.nullable, p)
            continue
        n = r.uvarint(p) - 1 if flex else _struct.unpack(">i", r.take(4, p))[0]
        if n < 0:
            if n != -1:
                raise WireError(f"{p}: array length {n}")
            if not f.nullable:
                raise WireError(f"{p}: null for non-nullable array")
            body[f.name] = None
            continue
        if n > r.left():
            raise WireError(f"{p}: array of {n} elements in {r.left()} bytes")
        if f.elem == "struct":
            body[f.name] = [_dec_struct(f.fields, flex, r, f"{p}[{i}].") for i in range(n)]
        else:
            body[f.name] = [_dec_prim(f.elem, r, flex, False, f"{p}[{i}]") for i in range(n)]
    if flex:
        tags = _dec_tags(r, path + "_tagged_fields")
        if tags:
            body["_tagged_fields"] = tags
    return body


def encode_body(api_key, version, kind, body, strict=False, trace=None):
    """trace: optional list; receives (byte offset, field path) for every field start (debugging / C11)."""
    s = schema(api_key, version, kind)
    out = bytearray()
    _enc_struct(s.fields, _msg(api_key)[kind], version, s.flexible, body if body is not None else {}, out, strict, "",
                trace)
    return bytes(out)


def encode_primitive(type_, value, flexible=False, nullable=False):
    """One primitive in isolation: type_ as in VField.type (not 'array')."""
    out = bytearray()
    _enc_prim(type_, value, flexible, nullable, type_, out)
    return bytes(out)


def encode_tagged_fields(tags):
    out = bytearray()
    _enc_tags(tags, "_tagged_fields", out)
    return bytes(out)


def _decode_body(api_key, version, kind, r):
    s = schema(api_key, version, kind)
    body = _dec_struct(s.fields, s.flexible, r, "")
    if r.left():
        raise WireError(f"{s.name}: {r.left()} bytes left over after the body (offset {r.pos})")
    return body


def decode_body(api_key, version, kind, data):
    return _decode_body(api_key, version, kind, _Reader(data))


# --------------------------------------------------------------------------- headers

class Req:
    __slots__ = ("api_key", "version", "correlation_id", "client_id", "body", "header_version", "header_tags")

    def __init__(self, api_key, version, correlation_id, client_id, body, header_version, header_tags):
        self.api_key, self.version, self.correlation_id, self.client_id = api_key, version, correlation_id, client_id
        self.body, self.header_version, self.header_tags = body, header_version, header_tags

    @property
    def api_name(self):
        return API_NAMES.get(self.api_key)

    def __repr__(self):
        return (f"Req({API_NAMES.get(self.api_key, self.api_key)} v{self.version} corr={self.correlation_id} "
                f"client_id={self.client_id!r} body={self.body!r})")


def encode_request(api_key, version, correlation_id, client_id, body, strict=False, header_tags=None):
    hv = request_header_version(api_key, version)
    out = bytearray()
    _enc_prim("int16", api_key, False, False, "api_key", out)
    _enc_prim("int16", version, False, False, "api_version", out)
    _enc_prim("int32", correlation_id, False, False, "correlation_id", out)
    _enc_prim("string", client_id, False, True, "client_id", out)  # never compact, even in header v2
    if hv == 2:
        _enc_tags(header_tags or {}, "header._tagged_fields", out)
    elif header_tags:
        raise WireError("request header v1 has no tagged fields")
    return bytes(out) + encode_body(api_key, version, "request", body, strict)


def peek_request_header(data):
    if len(data) < 8:
        raise WireError(f"short data: request header needs 8 bytes, have {len(data)}")
    return _struct.unpack(">hhi", bytes(data[:8]))


def decode_request(data):
    r = _Reader(data)
    api_key, version, corr = _struct.unpack(">hhi", r.take(8, "request header"))
    hv = request_header_version(api_key, version)  # WireError for unknown api/version
    client_id = _dec_prim("string", r, False, True, "client_id")
    tags = _dec_tags(r, "header._tagged_fields") if hv == 2 else {}
    body = _decode_body(api_key, version, "request", r)
    return Req(api_key, version, corr, client_id, body, hv, tags)


def encode_response(api_key, version, correlation_id, body, strict=False, header_tags=None):
    hv = response_header_version(api_key, version)
    out = bytearray()
    _enc_prim("int32", correlation_id, False, False, "correlation_id", out)
    if hv == 1:
        _enc_tags(header_tags or {}, "header._tagged_fields", out)
    elif header_tags:
        raise WireError("response header v0 has no tagged fields")
    return bytes(out) + encode_body(api_key, version, "response", body, strict)


def decode_response(api_key, version, data):
    hv = response_header_version(api_key, version)
    r = _Reader(data)
    corr = _dec_prim("int32", r, False, False, "correlation_id")
    if hv == 1:
        _dec_tags(r, "header._tagged_fields")
    return corr, _decode_body(api_key, version, "response", r)
