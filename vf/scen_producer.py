"""Producer scenarios (C01, C02, parts of C19): a real AIOKafkaProducer against the simulated cluster.

params (all JSON-able):
  idempotent: bool            acks: 0 | 1 | -1 (ignored when idempotent)
  batching: "single" | "multi"  (single: max_batch_size so small that every record is its own batch;
                                 multi: linger_ms > 0 and a large batch)
  compression: None | "gzip"
  baseline: "net" | "app"     canonical order of enabled events (DESIGN E1)
  program: [[(partition, timestamp_ms|None), ...], ...]   one list of sends per sender task
  s0: starting per-partition sequence number (idempotent only)
  produce_max: cap of the broker's Produce version range
  ts_type: 0 CreateTime | 1 LogAppendTime
  faults: list of fault kinds offered; errs: {api: [codes]}
  flush_gate / stop_gate: bool  - expose flush()/stop() as gates (C02/C19)
  leader_move: bool - offer LEADER_MOVE of partition 0 as a fault alternative
"""
import asyncio

from vf import kwire
from vf.explore import Alt
from vf.runner import h64
from vf.simkafka import Cluster, seq_add

H = 12.0  # virtual seconds allowed for resolution after the last program step


class ProducerScenario:
    name = "producer"

    def __init__(self, params):
        self.p = dict(params)
        self.violations = []
        self.world = None
        self.accepted = []  # (task, idx, partition, value, ts, time)
        self.resolved = {}  # value -> list of ("ok", meta) / ("exc", type)
        self.futs = {}
        self.send_errors = []
        self.outstanding = {}  # (topic, partition) -> [(conn, corr)]
        self.presented = {}  # (pid, epoch, topic, partition) -> list of (base_seq, count, records)
        self.flush_returned = None
        self.stop_returned = None
        self.wrap_seen = False
        self.batch_futs = {}  # first value -> values of the batch (send_batch scenarios)
        self.batch_values = set()

    def fail(self, oracle, sig, msg):
        self.violations.append((oracle, sig, msg))

    # ------------------------------------------------------------------------------------------------
    def setup(self, world):
        p = self.p
        cl = Cluster(world, nbrokers=p.get("brokers", 2),
                     topics={"t": {"partitions": 2, "leaders": {0: 0, 1: 1}, "timestamp_type": p.get("ts_type", 0)}},
                     versions={"Produce": (0, p.get("produce_max", 8))})
        world.server = cl
        self.cluster = cl
        world.app_eager = p.get("baseline", "net") == "app"
        world.p_enabled = True
        world.k_mid = bool(p.get("k_mid", True))
        cl.fault_kinds = tuple(p.get("faults", ("drop-before", "drop-after", "lose", "err")))
        cl.fault_apis = set(p.get("fault_apis", ("Produce", "Metadata")))
        cl.err_codes = {k: list(v) for k, v in p.get("errs", {"Produce": [6, 5, 3, 7, 19, 20]}).items()}
        cl.write_hooks.append(self.on_write)
        cl.response_hooks.append(self.on_response)
        cl.close_hooks.append(self.on_close)
        if p.get("leader_move"):
            world.extra_alts.append(self.state_fault_alts)
        self.kgates = {}  # name -> future: flush()/stop() placed by the explorer (budget k), never taken by default
        world.extra_alts.append(self.kgate_alts)
        if p.get("cluster_modes"):
            world.extra_alts.append(self.mode_alts)
        world.main_task = world.spawn("p", self.main)

    def state_fault_alts(self, world, quiescent):
        if world.chooser.remaining("f") <= 0 or not quiescent or not self.cluster.faults_enabled:
            return []
        part = self.cluster.partition("t", 0)
        if getattr(self, "_moved", False):
            return []

        def move():
            self._moved = True
            self.cluster.move_leader("t", 0)
            world.log("leader-move t-0 ->", part.leader)

        return [Alt("leader-move:t-0", "f", move)]

    def kgate_alts(self, world, quiescent):
        if world.chooser.remaining("k") <= 0:
            return []
        return [Alt(f"call:{name}", "k", lambda fut=fut: (not fut.done()) and fut.set_result(None))
                for name, fut in self.kgates.items() if not fut.done()]

    async def kgate(self, name):
        fut = self.world.loop.create_future()
        self.kgates[name] = fut
        await fut

    async def main(self):
        from aiokafka import AIOKafkaProducer

        world = self.world
        p = self.p
        single = p.get("batching", "single") == "single"
        kw = {}
        if p.get("transactional"):
            kw["transactional_id"] = "tx"  # implies idempotence; sends happen inside one transaction (C01's transactional scenarios)
        elif p.get("idempotent"):
            kw["enable_idempotence"] = True
        else:
            kw["acks"] = p.get("acks", 1)
        prod = AIOKafkaProducer(bootstrap_servers="b0:9000", client_id="p", request_timeout_ms=2000,
                                retry_backoff_ms=50, metadata_max_age_ms=1_000_000,
                                max_batch_size=p.get("max_batch_size", 100 if single else 16384),
                                linger_ms=0 if single else p.get("linger_ms", 20),
                                compression_type=p.get("compression"), **kw)
        self.prod = prod
        self.cluster.faults_enabled = False  # a failed bootstrap raises from start(): outside the properties
        world.frozen = True
        await prod.start()
        world.frozen = False
        self.cluster.faults_enabled = True
        s0 = p.get("s0", 0)
        if p.get("idempotent") and s0:
            from aiokafka.structs import TopicPartition

            tm = prod._txn_manager
            for part in (0, 1):
                tm._sequence_numbers[TopicPartition("t", part)] = s0
                self.cluster.seed_producer_state("t", part, tm.producer_id, tm.producer_epoch, s0 - 1)
        self.s0 = s0
        if p.get("transactional"):
            await prod.begin_transaction()
        if p.get("mode_now"):
            self.set_mode(tuple(p["mode_now"]))  # cluster mode in force from the first send on (C19)
        tasks = [world.spawn("p", self.sender, i, prog) for i, prog in enumerate(p["program"])]
        extra = []
        if p.get("flush_gate"):
            extra.append(world.spawn("p", self.flusher))
        if p.get("stop_gate"):
            extra.append(world.spawn("p", self.stopper))
        await asyncio.wait(tasks, timeout=H)
        self.hung_sends = 0
        for t in tasks:
            if not t.done():
                # a send() call that never returns (e.g. issued while stop() is closing the client and left waiting for
                # metadata) returned no future: outside C01/C02; counted, the task is abandoned
                self.hung_sends += 1
                t.cancel()
            elif not t.cancelled() and t.exception() is not None:
                self.send_errors.append(("task", repr(t.exception())))
        futs = [f for f in self.futs.values()]
        if futs:
            await asyncio.wait(futs, timeout=H)
        if getattr(self, "stop_t0", None) is not None:
            # stop()/flush() placed by the explorer are given the same horizon to return
            waiting = [t for t in extra if not t.done()]
            if waiting:
                await asyncio.wait(waiting, timeout=H)
        for t in extra:
            if not t.done():
                t.cancel()
        self.all_done_at = world.now()
        self.unresolved = [v for v, f in self.futs.items() if not f.done()]
        if p.get("transactional") and not self.unresolved:
            try:
                await asyncio.wait_for(prod.commit_transaction(), timeout=H)
                self.txn_end = "committed"
            except Exception as e:  # noqa: BLE001 - the outcome of the transaction is C07's subject; C01 looks at order and sequences
                self.txn_end = type(e).__name__
        if not self.unresolved:
            t0 = world.now()
            await prod.stop()
            self.stop_took = world.now() - t0
        self.sender_exc = None
        st = prod._sender.sender_task
        if st is not None and st.done() and not st.cancelled():
            self.sender_exc = st.exception()

    async def batch_sender(self, i, prog):
        # send_batch() with a pre-built BatchBuilder: one future for the whole batch
        world = self.world
        await world.gate(f"s{i}.0")
        builder = self.prod.create_batch()
        part = prog[0][0]
        vals = []
        for j, (_, ts) in enumerate(prog):
            value = b"v%d.%d" % (i, j)
            md = builder.append(key=None, value=value, timestamp=ts)
            if md is None:
                break
            vals.append((j, value, ts))
        try:
            fut = await self.prod.send_batch(builder, "t", partition=part)
        except Exception as e:  # noqa: BLE001
            self.send_errors.append((vals[0][1], type(e).__name__))
            world.record("send-refused", vals[0][1], type(e).__name__)
            return
        for j, value, ts in vals:
            self.accepted.append((i, j, part, value, None, (), ts, world.now()))
        first = vals[0][1]
        self.batch_values.update(v for _, v, _ in vals)
        self.batch_futs[first] = [v for _, v, _ in vals]
        world.record("accepted-batch", first, part, len(vals))
        self.futs[first] = fut
        fut.add_done_callback(lambda f, value=first: self.on_resolved(value, f))

    async def sender(self, i, prog):
        world = self.world
        sb = self.p.get("send_batch")
        if sb is True or (isinstance(sb, (list, tuple)) and i in sb):
            return await self.batch_sender(i, prog)
        pad = b"." * self.p.get("value_pad", 0)
        for j, (part, ts) in enumerate(prog):
            await world.gate(f"s{i}.{j}")
            value = b"v%d.%d" % (i, j) + pad
            key = b"k%d" % j if j % 2 else None
            headers = [("h", b"%d" % j)] if j % 2 else []
            try:
                fut = await self.prod.send("t", value=value, key=key, partition=part, timestamp_ms=ts, headers=headers)
            except Exception as e:  # noqa: BLE001
                self.send_errors.append((value, type(e).__name__))
                world.record("send-refused", value, type(e).__name__)
                continue
            self.accepted.append((i, j, part, value, key, tuple(headers), ts, world.now()))
            world.record("accepted", value, part)
            ma = self.p.get("mode_after")
            if ma and len(self.accepted) == ma[0] and not getattr(self, "_mode", None):
                self.set_mode(tuple(ma[1]))  # cluster condition in force once records are pending (C19)
            self.futs[value] = fut
            fut.add_done_callback(lambda f, value=value: self.on_resolved(value, f))

    def on_resolved(self, value, f):
        if f.cancelled():
            r = ("cancelled",)
        elif f.exception() is not None:
            r = ("exc", type(f.exception()).__name__)
        else:
            r = ("ok", f.result())
        self.resolved.setdefault(value, []).append((self.world.now(), r))
        # default timestamps come from the C-level wall clock of the Cython builder: keep them out of the trace
        brief = r[1] if r[0] == "exc" else (None if len(r) < 2 or r[1] is None else f"{r[1].partition}@{r[1].offset}")
        self.world.record("resolved", value, r[0], brief)

    async def flusher(self):
        await self.kgate("flush")
        before = set(self.futs)
        await self.prod.flush()
        pending = [v for v in before if not self.futs[v].done()]
        self.world.record("flush-returned", tuple(sorted(pending)))
        if pending:
            self.fail("flush-early", {"what": "flush-returned-before-resolution"},
                      f"flush() returned while {pending} accepted before it were unresolved")

    async def stopper(self):
        await self.kgate("stop")
        before = set(self.futs)
        self.stop_t0 = self.world.now()
        self.stop_mode = getattr(self, "_mode", None)
        self.stop_f_spent = self.world.chooser.spent["f"]
        self.world.record("stop-called")
        await self.prod.stop()
        self.stop_dur = self.world.now() - self.stop_t0
        pending = [v for v in before if not self.futs[v].done()]
        self.world.record("stop-returned", tuple(sorted(pending)))
        if pending and self.p.get("check_c02", True):
            self.fail("stop-early", {"what": "stop-returned-before-resolution"},
                      f"stop() returned while {pending} accepted before it were unresolved")
        if self.p.get("check_c19"):
            try:
                await asyncio.wait_for(self.prod.send("t", value=b"late", partition=0), timeout=1.0)
                self.after_stop = "returned"
            except asyncio.TimeoutError:
                self.after_stop = "hung"
            except Exception as e:  # noqa: BLE001
                self.after_stop = type(e).__name__

    def mode_alts(self, world, quiescent):
        if not quiescent or world.chooser.remaining("f") <= 0 or getattr(self, "_mode", None) or not self.cluster.faults_enabled:
            return []
        out = [Alt(f"broker-down:{n}", "f", lambda n=n: self.set_mode(("down", n))) for n in self.cluster.nodes]
        out.append(Alt("blackhole", "f", lambda: self.set_mode(("blackhole",))))
        return out

    def set_mode(self, mode):
        self._mode = mode
        self.world.record("cluster-mode", mode)
        if mode[0] == "down":
            for n in (self.cluster.nodes if mode[1] == "all" else [mode[1]]):
                self.cluster.broker_down(n)
        elif mode[0] == "leaderless":
            # the partition loses its leader for good (no election): metadata reports leader -1 / LEADER_NOT_AVAILABLE,
            # the old leader answers NOT_LEADER_FOR_PARTITION
            self.cluster.partition("t", mode[1]).leader = -1
        else:
            self.cluster.blackhole = True

    def check_c19(self):
        import gc

        world = self.world
        # a producer has no session / rebalance timeout; with brokers silent each pending step (in-flight request, reconnect
        # attempt, queued batch) may take one request timeout, so the bound is a small multiple of it (the hang detector is H)
        bound = 4 * 2.0 + 1.0
        t0 = getattr(self, "stop_t0", None)
        if t0 is None:
            return
        mode = getattr(self, "stop_mode", None) or getattr(self, "_mode", None)
        sig_mode = mode[0] if mode else "healthy"
        idem = bool(self.p.get("idempotent"))
        dur = getattr(self, "stop_dur", None)
        if dur is None:
            self.fail("stop-terminates", {"what": "stop-never-returned", "cluster": sig_mode, "idempotent": idem},
                      f"producer stop() called at t={t0} had not returned when the run ended at t={world.now()} (cluster mode {mode})")
            return
        if dur > bound:
            self.fail("stop-terminates", {"what": "stop-exceeds-bound", "cluster": sig_mode, "idempotent": idem},
                      f"producer stop() took {dur:.3f}s of virtual time; bound from the configured timeouts is {bound:.1f}s (cluster mode {mode})")
        if getattr(self, "after_stop", None) not in (None, "ProducerClosed"):
            self.fail("stop-api", {"what": "call-after-stop", "call": "send", "outcome": self.after_stop},
                      f"send() after stop() {self.after_stop} instead of raising ProducerClosed")
        left = [x for x in world.loop.live_things("p") if x[0] != "task" or "ProducerScenario" not in x[1]]
        if left:
            self.fail("stop-leftovers", {"what": "alive-after-stop", "kinds": ",".join(sorted({k for k, _ in left}))},
                      f"after producer stop() returned these things created by the client are still alive: {left[:4]}")
        gc.collect()
        for ctx in world.loop.exc_log:
            msg = ctx.get("message", "")
            if "never retrieved" in msg or "Unclosed" in msg or "was destroyed" in msg:
                exc = ctx.get("exception")
                self.fail("stop-leftovers", {"what": "loop-report", "message": msg[:40], "type": type(exc).__name__ if exc else "none"},
                          f"event loop reported after stop: {msg} {exc!r}")

    # ---- wire-level monitors (C01 a, b) ---------------------------------------------------------------
    def on_write(self, conn, frame):
        api_key, ver, corr = kwire.peek_request_header(frame)
        if api_key != 0:
            return
        req = kwire.decode_request(frame)
        acks = req.body["acks"]
        for td in req.body["topic_data"]:
            for pd in td["partition_data"]:
                tp = (td["name"], pd["index"])
                out = self.outstanding.setdefault(tp, [])
                if out and self.p.get("check_c01", True):
                    self.fail("two-in-flight", {"what": "two-in-flight"},
                              f"ProduceRequest for {tp} written on {conn.label} (corr {corr}) while {[(c.label, k) for c, k in out]} still in flight")
                if acks != 0:
                    out.append((conn, corr))

    def on_response(self, conn, frame):
        (corr,) = __import__("struct").unpack_from(">i", frame)
        for tp, out in self.outstanding.items():
            out[:] = [(c, k) for c, k in out if not (c is conn and k == corr)]

    def on_close(self, conn):
        for tp, out in self.outstanding.items():
            out[:] = [(c, k) for c, k in out if c is not conn]

    # ---- end-of-run oracles ---------------------------------------------------------------------------
    def finish(self, world):
        p = self.p
        cl = self.cluster
        if world.capped:
            return
        if world.main_task.done() and not world.main_task.cancelled() and world.main_task.exception() is not None:
            exc = world.main_task.exception()
            self.fail("harness-main", {"what": "main-exception", "type": type(exc).__name__}, f"scenario main failed: {exc!r}")
            return
        if p.get("check_c01", True):
            self.check_sequences()
            if self.wrap_seen:
                return  # everything after an out-of-range sequence is a consequence of it
            self.check_log()
        if p.get("check_c02", True):
            self.check_futures()
        if p.get("check_c19"):
            self.check_c19()

    def check_sequences(self):
        if not self.p.get("idempotent"):
            return
        per = {}
        for e in self.cluster.arrivals:
            if e["api"] != "Produce":
                continue
            for part in e.get("parts", ()):
                for b in part["batches"]:
                    key = (b["pid"], b["epoch"], part["topic"], part["partition"])
                    per.setdefault(key, []).append((b["base_seq"], b["count"], tuple(b["records"]), e["seq"]))
        for key, lst in per.items():
            seen = {}
            high_last = None  # last sequence of the newest batch presented so far
            for base, count, recs, aseq in lst:
                if not 0 <= base <= 2**31 - 1:
                    self.wrap_seen = True
                    self.fail("sequence", {"what": "sequence-outside-0..2^31-1", "negative": base < 0},
                              f"{key}: batch presented with base sequence {base} (arrival {aseq}); Kafka wraps 2^31-1 -> 0")
                    return
                if base in seen:
                    if seen[base] != (count, recs):
                        self.fail("sequence", {"what": "sequence-reused"},
                                  f"{key}: base sequence {base} presented again with different records (arrival {aseq})")
                    continue
                expect = self.s0 if high_last is None else seq_add(high_last, 1)
                if base != expect:
                    self.fail("sequence", {"what": "sequence-gap"},
                              f"{key}: presented base sequence {base}, expected {expect} (arrival {aseq})")
                seen[base] = (count, recs)
                high_last = seq_add(base, count - 1)

    def check_log(self):
        p = self.p
        cl = self.cluster
        accepted = {a[3]: a for a in self.accepted}
        idem = bool(p.get("idempotent"))
        for part in cl.topics["t"].partitions:
            occurrences = {}
            order = []
            batches = []
            for st in part.log:
                vals = tuple(r.value for r in st.batch.records)
                batches.append(vals)
                for r in st.batch.records:
                    if r.value not in accepted:
                        self.fail("log-content", {"what": "appended-not-accepted"},
                                  f"t-{part.index}@{r.offset}: record {r.value!r} was never accepted by send()")
                        continue
                    a = accepted[r.value]
                    if a[2] != part.index:
                        self.fail("log-content", {"what": "wrong-partition"}, f"{r.value!r} accepted for partition {a[2]} appended to {part.index}")
                    if (r.key, tuple(r.headers or ())) != (a[4], a[5]):
                        self.fail("log-content", {"what": "record-altered"}, f"{r.value!r} stored with key/headers {r.key!r}/{r.headers!r}")
                    if r.value not in occurrences:
                        order.append(r.value)
                    occurrences.setdefault(r.value, []).append(r.offset)
            # per-task issue order among first occurrences
            last = {}
            for v in order:
                i, j = accepted[v][0], accepted[v][1]
                if i in last and j < last[i]:
                    self.fail("log-content", {"what": "reordered"},
                              f"t-{part.index}: {v!r} first appears after a later record of the same task; order {order}")
                last[i] = max(last.get(i, -1), j)
            dups = {v: o for v, o in occurrences.items() if len(o) > 1}
            if idem and dups:
                self.fail("log-content", {"what": "duplicate-idempotent"}, f"t-{part.index}: duplicated under idempotence: {dups}")
            if not idem and dups:
                # duplicates only as whole re-sent batches
                firsts = {}
                for vals in batches:
                    if vals in firsts:
                        continue
                    firsts[vals] = True
                seen_vals = set()
                for vals in batches:
                    new = [v for v in vals if v not in seen_vals]
                    if new and len(new) != len(vals):
                        self.fail("log-content", {"what": "partial-batch-duplicate"},
                                  f"t-{part.index}: batch {vals} repeats only part of an earlier batch")
                    if not new and vals not in [b for b in batches[:batches.index(vals) + 1]]:
                        pass
                    seen_vals.update(vals)
            # acknowledged => present
            for v, a in accepted.items():
                if a[2] != part.index:
                    continue
                res = self.resolved.get(v, [])
                ok = [r for _, r in res if r[0] == "ok"]
                if ok and p.get("acks", 1) != 0 and v not in occurrences:
                    self.fail("log-content", {"what": "acknowledged-missing"}, f"{v!r} acknowledged but not in the log of t-{part.index}")

    def check_futures(self):
        p = self.p
        cl = self.cluster
        idem = bool(p.get("idempotent"))
        acks0 = not idem and p.get("acks", 1) == 0
        for a in self.accepted:
            v = a[3]
            if v in self.batch_values and v not in self.batch_futs:
                continue  # send_batch() returns one future per batch, registered under its first record
            res = self.resolved.get(v, [])
            if len(res) > 1:
                self.fail("future", {"what": "resolved-twice"}, f"future of {v!r} resolved {len(res)} times")
            if not res:
                self.fail("future", {"what": "unresolved"}, f"future of {v!r} unresolved {H}s after the last send")
                continue
            r = res[0][1]
            if r[0] == "exc":
                if idem:
                    self.fail("future", {"what": "failed-under-idempotence", "error": r[1]},
                              f"{v!r} failed with {r[1]} although only retriable faults occurred")
                continue
            if r[0] != "ok":
                continue
            md = r[1]
            if acks0:
                if md is not None:
                    self.fail("future", {"what": "acks0-metadata"}, f"{v!r}: acks=0 resolved with {md}")
                continue
            if md is None:
                self.fail("future", {"what": "no-metadata"}, f"{v!r}: resolved without metadata under acks={p.get('acks')}")
                continue
            part = cl.partition("t", md.partition)
            rec = None
            batch = None
            if part is not None:
                for st in part.log:
                    for rr in st.batch.records:
                        if rr.offset == md.offset:
                            rec, batch = rr, st.batch
            if md.topic != "t" or md.partition != a[2] or rec is None or rec.value != v or rec.key != a[4]:
                self.fail("metadata", {"what": "wrong-coordinates"},
                          f"{v!r}: metadata says t-{md.partition}@{md.offset}, log has {rec.value if rec else None!r} there")
                continue
            legacy_resp = p.get("produce_max", 8) < 2
            want_type = cl.topics["t"].timestamp_type
            if legacy_resp:
                want_type = 0
            stored_ts = rec.timestamp if want_type == 0 else batch.max_timestamp
            if legacy_resp:
                stored_ts = a[6]
            if md.timestamp_type != want_type:
                self.fail("metadata", {"what": "timestamp-type"}, f"{v!r}: timestamp_type {md.timestamp_type}, topic applies {want_type}")
            elif v in self.batch_futs and want_type == 0:
                pass  # the batch future of send_batch() is not tied to one record's CreateTime timestamp
            elif a[6] is not None or want_type == 1:
                if md.timestamp != stored_ts:
                    self.fail("metadata", {"what": "timestamp", "ts_type": want_type},
                              f"{v!r}: metadata timestamp {md.timestamp}, stored record has {stored_ts}")
            elif md.timestamp is None or md.timestamp < 0:
                # default timestamps are stamped by the Cython builder from the C wall clock, which the harness does
                # not own: only "a timestamp was reported" is demanded here (DESIGN E1 table)
                self.fail("metadata", {"what": "timestamp-default-missing", "ts_type": want_type},
                          f"{v!r}: metadata timestamp {md.timestamp} for a record sent with the default timestamp")
        if self.sender_exc is not None and not self.wrap_seen:
            # a second set_result()/set_exception() on a send future raises InvalidStateError inside the sender: that is the
            # "resolved twice" the property forbids. Any other sender death still resolves every future (checked above)
            # and is not, by itself, a statement of C02.
            chain, e = [], self.sender_exc
            while e is not None and len(chain) < 8:
                chain.append(e)
                e = e.__cause__ or e.__context__
            if any(isinstance(e, asyncio.InvalidStateError) for e in chain):
                self.fail("sender-crash", {"what": "sender-crash-double-resolution"},
                          f"sender task died resolving a future twice: {[repr(e) for e in chain]}")
            else:
                self.sender_deaths = [repr(e) for e in chain]
        for ctx in self.world.loop.exc_log:
            msg = ctx.get("message", "")
            exc = ctx.get("exception")
            self.fail("loop-exception", {"what": "loop-exception", "type": type(exc).__name__ if exc else "none"},
                      f"event loop reported: {msg} {exc!r}")

    def outcome(self):
        cl = self.cluster
        logs = tuple(tuple(r.value for st in part.log for r in st.batch.records) for part in cl.topics["t"].partitions)
        res = tuple(sorted((v, tuple(r[1][0] for r in rs)) for v, rs in self.resolved.items()))
        return h64((logs, res, len(cl.arrivals)))


def make(params):
    return ProducerScenario(params)
