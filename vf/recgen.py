"""E5 - bounded input enumerators for the record codec checks (C09, C10) and access to both codec
implementations of the library (compiled `aiokafka.record._crecords.*`, pure-Python `_...Py`).

The pure-Python implementation is what a user without the extension gets, i.e. the `_...Py` classes
*with* the pure-Python varint / CRC-32C helpers.  `aiokafka.record.util` selects those helpers at
import time, so AIOKAFKA_NO_EXTENSIONS=1 is set before the first import of `aiokafka.record`; the
compiled classes are then taken explicitly from `aiokafka.record._crecords` (the working-tree build
that `vf.build.install` put on the import path).
"""
import itertools
import os
import types

from vf import krecords as K

T = 1_600_000_000_000
BIG = 1 << 30


def _blob(n, salt):
    return bytes((i * 31 + salt * 17 + (i >> 8)) & 0xFF for i in range(n))


VALUES = [None, b"", _blob(1, 1), _blob(63, 2), _blob(64, 3), _blob(8191, 4), _blob(8192, 5)]
HEADERS = [[], [("h1", b"v")], [("h1", b"v1"), ("h2", b"")], [("hn", None)], [("ключ-é€", b"\xff\x00")]]
TIMESTAMPS = [T, 0, T - 1, T + 2**31 + 1, 2**62]
# background assignments for the fields that are not being swept: (timestamp, key, value, headers)
BACKGROUNDS = [
    (T, None, b"", []),
    (T - 1, VALUES[2], VALUES[4], HEADERS[1]),
    (0, VALUES[3], VALUES[5], HEADERS[2]),
]
FIELD_VALUES = [TIMESTAMPS, VALUES, VALUES, HEADERS]  # index = position in the record tuple

CODECS = {0: (0, 1, 2), 1: (0, 1, 2, 3), 2: (0, 1, 2, 3, 4)}  # where the format (and the library) allows
# magic 0 + lz4 is refused by the library (KAFKA-3160 framing) and is not part of the grid.


def sequences(maxlen=3):
    """Record sequences, simplest first.  Rule: for every length n in 0..maxlen, every position p < n,
    every field f in (timestamp, key, value, headers) and every grid value x of f: the sequence whose
    record p has f = x while all other fields of all records take each of the 3 BACKGROUNDS (record i uses
    background (b + i) mod 3 so that neighbouring records differ).  Every grid value therefore occurs at
    every position of every length, against 3 different surroundings."""
    seen = set()
    yield []
    for n in range(1, maxlen + 1):
        for b in range(len(BACKGROUNDS)):
            for p in range(n):
                for f in range(4):
                    for x in FIELD_VALUES[f]:
                        seq = []
                        for i in range(n):
                            rec = list(BACKGROUNDS[(b + i) % len(BACKGROUNDS)])
                            if i == p:
                                rec[f] = x
                            seq.append(tuple(rec))
                        key = repr(seq)
                        if key not in seen:
                            seen.add(key)
                            yield seq


def small_sequences():
    """A handful of short sequences with small fields (for concatenations and the C10 corpus)."""
    return [
        [(T, None, b"", [])],
        [(T, b"k", b"v", [("h", b"x")]), (T - 1, b"", None, [])],
        [(0, b"key", b"value-value-value-value", [("hn", None), ("é", b"")]), (T + 2**31 + 1, None, None, []),
         (T, b"k2", b"v2", [])],
    ]


# ---------------------------------------------------------------- the two implementations
_IMPLS = None


def impls():
    """-> {"cython": ns, "python": ns}; ns has DefaultBuilder, DefaultBatch, LegacyBuilder, LegacyBatch, MemoryRecords."""
    global _IMPLS
    if _IMPLS is not None:
        return _IMPLS
    import sys

    if "aiokafka.record.util" in sys.modules and not os.environ.get("AIOKAFKA_NO_EXTENSIONS"):
        raise RuntimeError("aiokafka.record was imported before vf.recgen could select the pure-Python helpers")
    os.environ["AIOKAFKA_NO_EXTENSIONS"] = "1"
    import aiokafka.record._crecords as C
    import aiokafka.record.util as U
    from aiokafka.record import default_records as D
    from aiokafka.record import legacy_records as L
    from aiokafka.record import memory_records as M

    assert U.decode_varint is U.decode_varint_py and U.calc_crc32c is U.calc_crc32c_py
    assert M.MemoryRecords is M._MemoryRecordsPy and M.DefaultRecordBatch is D._DefaultRecordBatchPy
    assert M.LegacyRecordBatch is L._LegacyRecordBatchPy
    cy = types.SimpleNamespace(name="cython", DefaultBuilder=C.DefaultRecordBatchBuilder, DefaultBatch=C.DefaultRecordBatch,
                               LegacyBuilder=C.LegacyRecordBatchBuilder, LegacyBatch=C.LegacyRecordBatch,
                               MemoryRecords=C.MemoryRecords)
    py = types.SimpleNamespace(name="python", DefaultBuilder=D._DefaultRecordBatchBuilderPy, DefaultBatch=D._DefaultRecordBatchPy,
                               LegacyBuilder=L._LegacyRecordBatchBuilderPy, LegacyBatch=L._LegacyRecordBatchPy,
                               MemoryRecords=M._MemoryRecordsPy)
    _IMPLS = {"cython": cy, "python": py}
    return _IMPLS


def make_builder(impl, magic, codec, batch_size=BIG, transactional=0, pid=-1, pepoch=-1, bseq=-1):
    if magic == 2:
        return impl.DefaultBuilder(2, codec, transactional, pid, pepoch, bseq, batch_size)
    return impl.LegacyBuilder(magic, codec, batch_size)


def lib_build(impl, magic, codec, seq, **kw):
    """Append every record of `seq` (relative offsets 0,1,2..) with a huge batch_size; -> bytes."""
    b = make_builder(impl, magic, codec, **kw)
    for i, (ts, key, value, headers) in enumerate(seq):
        if magic == 2:
            md = b.append(i, ts, key, value, headers)
        else:
            md = b.append(i, ts, key, value)
        assert md is not None
    return bytes(b.build())


V2_ATTRS = ("magic", "base_offset", "attributes", "compression_type", "timestamp_type", "is_transactional",
            "is_control_batch", "last_offset_delta", "first_timestamp", "max_timestamp", "producer_id",
            "producer_epoch", "base_sequence", "next_offset", "crc")
LEGACY_ATTRS = ("next_offset", "is_control_batch", "is_transactional", "producer_id")


def read_all(impl, data, validate=True):
    """Decode `data` the way the fetcher does.  -> list of (attrs: dict, records: list of tuples).
    Exceptions propagate.  A `has_next()` that disagrees with `next_batch()` raises AssertionError."""
    mr = impl.MemoryRecords(data)
    out = []
    while True:
        has = mr.has_next()
        batch = mr.next_batch()
        if batch is None:
            if has:
                raise HasNextMismatch("has_next() was True but next_batch() returned None")
            break
        if not has:
            raise HasNextMismatch("has_next() was False but next_batch() returned a batch")
        is_v2 = hasattr(batch, "last_offset_delta")
        attrs = {a: getattr(batch, a) for a in (V2_ATTRS if is_v2 else LEGACY_ATTRS)}
        attrs["v2"] = is_v2
        if validate:
            attrs["crc_ok"] = batch.validate_crc()
        recs = [(r.offset, r.timestamp, r.timestamp_type, r.key, r.value, list(r.headers), r.checksum) for r in batch]
        out.append((attrs, recs))
    if mr.next_batch() is not None or mr.has_next():
        raise HasNextMismatch("next_batch() returned a batch after None")
    return out


class HasNextMismatch(Exception):
    pass


def ref_view(batches, validate=True):
    """Reference decode (list[krecords.Batch]) in the shape of read_all (without per-record checksum)."""
    out = []
    for b in batches:
        if b.magic == 2:
            attrs = dict(magic=2, base_offset=b.base_offset, attributes=b.attributes, compression_type=b.compression,
                         timestamp_type=b.timestamp_type, is_transactional=b.is_transactional, is_control_batch=b.is_control,
                         last_offset_delta=b.last_offset - b.base_offset, first_timestamp=b.first_timestamp,
                         max_timestamp=b.max_timestamp, producer_id=b.producer_id, producer_epoch=b.producer_epoch,
                         base_sequence=b.base_sequence, next_offset=b.next_offset,
                         crc=int.from_bytes(b.raw[17:21], "big"), v2=True)
        else:
            attrs = dict(next_offset=b.next_offset, is_control_batch=False, is_transactional=False, producer_id=None, v2=False)
        if validate:
            attrs["crc_ok"] = b.crc_ok
        recs = [(r.offset, r.timestamp, r.timestamp_type, r.key, r.value, list(r.headers)) for r in b.records]
        out.append((attrs, recs))
    return out


def strip_checksum(view):
    return [(a, [r[:6] for r in recs]) for a, recs in view]


def expected_records(magic, seq, base_offset=0, offsets=None, log_append_time=None):
    """What decoding must yield for input `seq` (tuples in read_all order without checksum)."""
    out = []
    for i, (ts, key, value, headers) in enumerate(seq):
        off = base_offset + (offsets[i] if offsets is not None else i)
        if magic == 0:
            out.append((off, None, None, key, value, []))
        elif magic == 1:
            out.append((off, ts if log_append_time is None else log_append_time, 0 if log_append_time is None else 1,
                        key, value, []))
        else:
            out.append((off, ts if log_append_time is None else log_append_time, 0 if log_append_time is None else 1,
                        key, value, [(k, v) for k, v in headers]))
    return out


# ---------------------------------------------------------------- pool of small valid batches
def batch_pool(full=False):
    """Named small valid buffers: every magic, plain and compressed, built by both library builders and
    by the reference (control, LogAppendTime, compaction gaps, empty, rebased).  -> list of (name, bytes).
    One entry is one *batch* for v2 / compressed legacy, and a run of messages for plain legacy."""
    im = impls()
    seqs = small_sequences()
    pool = []
    for magic in (0, 1, 2):
        for codec in CODECS[magic]:
            for si, seq in enumerate(seqs):
                if not full and not ((codec == 0) or si == 1):
                    continue
                for iname in ("cython", "python"):
                    if not full and iname == "python" and not (codec == 0 and si == 1):
                        continue
                    pool.append((f"{iname}-v{magic}-{K.CODEC_NAMES[codec]}-s{si}", lib_build(im[iname], magic, codec, seq)))
    s1, s2 = seqs[1], seqs[2]
    pool += [
        ("ref-v2-control-commit", K.control_batch(40, 7, 3, True, T)),
        ("ref-v2-control-abort", K.control_batch(41, 7, 3, False, T, coordinator_epoch=5)),
        ("ref-v2-logappend", K.encode_v2(s1, base_offset=10, timestamp_type=1, max_timestamp=T + 5)),
        ("ref-v2-gaps-gzip", K.encode_v2([(1, T, b"a", b"b", []), (4, T + 9, None, b"c", [("h", None)])], base_offset=100,
                                       compression=K.GZIP, last_offset_delta=7, first_timestamp=T - 3, max_timestamp=T + 9)),
        ("ref-v2-empty", K.encode_v2([], base_offset=200, last_offset_delta=4, first_timestamp=T, max_timestamp=T + 1,
                                   producer_id=9, producer_epoch=1, base_sequence=0, transactional=True)),
        ("ref-v2-txn-zstd", K.encode_v2(s2, base_offset=2**40, compression=K.ZSTD, transactional=True, producer_id=2**63 - 1,
                                      producer_epoch=2**15 - 1, base_sequence=2**31 - 1, partition_leader_epoch=17)),
        ("ref-v1-logappend-snappy", K.encode_legacy(1, s2, compression=K.SNAPPY, base_offset=50, timestamp_type=1,
                                                  wrapper_timestamp=T + 7)),
        ("ref-v1-lz4", K.encode_legacy(1, s1, compression=K.LZ4, base_offset=60)),
        ("ref-v1-plain-logappend", K.encode_legacy(1, s1, base_offset=70, timestamp_type=1)),
        ("ref-v0-gzip-abs", K.encode_legacy(0, s2, compression=K.GZIP, base_offset=80)),
        ("ref-v0-plain", K.encode_legacy(0, s1, base_offset=90)),
        ("rebased-cython-v1-gzip", K.rebase(lib_build(im["cython"], 1, 1, s2), 300)),
        ("rebased-python-v2-lz4-logappend", K.rebase(lib_build(im["python"], 2, 3, s2), 400, log_append_time=T + 11)),
    ]
    return pool


def concat_pool():
    """The small batches used for concatenations: per magic one plain and one compressed, mixed builders."""
    names = ("cython-v0-none-s1", "python-v0-none-s1", "cython-v0-gzip-s1", "cython-v1-none-s0", "python-v1-none-s1",
             "cython-v1-snappy-s1", "cython-v2-none-s0", "python-v2-none-s1", "cython-v2-lz4-s1", "ref-v2-control-commit",
             "ref-v2-gaps-gzip", "ref-v1-logappend-snappy", "ref-v0-gzip-abs", "ref-v2-empty")
    d = dict(batch_pool())
    return [(n, d[n]) for n in names]


def magics_of(data):
    return [m for m, _, _ in K.iter_raw_batches(data)]


def product_sizes(*ns):
    return itertools.product(*[range(n) for n in ns])
