"""Runner: ./check Cxx [--tier quick|thorough] [--replay FILE] [--jobs N]

Exit codes: 0 property held on everything explored (known findings are printed
as KNOWN-FINDING lines), 1 at least one VIOLATION not listed in
known_findings.json, 2 harness error (a bug in /verif, never a verdict).
"""
import argparse
import hashlib
import importlib
import json
import multiprocessing
import os
import sys
import time
import traceback

ROOT = os.path.dirname(os.path.dirname(os.path.abspath(__file__)))
OUT = os.environ.get("VERIF_OUT") or ROOT  # scratch runs against a worktree write elsewhere
EVIDENCE_DIR = os.path.join(OUT, "evidence")
REPLAY_DIR = os.path.join(OUT, "replays")
FINDINGS_FILE = os.environ.get("VERIF_FINDINGS") or os.path.join(ROOT, "known_findings.json")  # override: scratch experiments only

MAX_SAMPLES = 6
MAX_REPLAYS_PER_SIG = 1
MAX_DISTINCT_SIGS = 40
SET_CAP = 4_000_000  # digests kept per statistic set (states, distinct, outcomes); beyond it the count is a lower bound


class HarnessError(Exception):
    """A defect of the verification machinery (divergent replay, simulator bug)."""


def h64(obj):
    """Stable 64-bit digest of a JSON-able / repr-able object."""
    if not isinstance(obj, (bytes, bytearray)):
        obj = repr(obj).encode()
    return int.from_bytes(hashlib.blake2b(obj, digest_size=8).digest(), "big")


class Acc:
    """Accumulator used inside workers and by the parent; mergeable and picklable."""

    def __init__(self):
        self.counts = {}
        self.samples = []
        self.violations = []  # dicts: oracle, sig, replay, msg
        self.sets = {}  # name -> set of 64-bit digests (distinct cases, states, outcomes)
        self.notes = {}
        self.caps = []

    def count(self, key, n=1):
        self.counts[key] = self.counts.get(key, 0) + n

    def sample(self, obj, force=False):
        if force or len(self.samples) < MAX_SAMPLES:
            self.samples.append(obj)

    def distinct(self, name, obj):
        self.sets.setdefault(name, set()).add(obj if isinstance(obj, int) else h64(obj))

    def violation(self, oracle, sig, replay, msg):
        sig = dict(sig)
        sig["oracle"] = oracle
        key = json.dumps(sig, sort_keys=True, default=str)
        n = sum(1 for v in self.violations if v["key"] == key)
        self.count("violating_cases")
        if n >= MAX_REPLAYS_PER_SIG:
            return
        if len({v["key"] for v in self.violations}) >= MAX_DISTINCT_SIGS and n == 0:
            self.count("violations_not_recorded")
            return
        self.violations.append({"key": key, "oracle": oracle, "sig": sig, "replay": replay, "msg": msg})

    def cap(self, what):
        if what not in self.caps:
            self.caps.append(what)

    def note(self, key, value):
        self.notes[key] = value

    def merge(self, other):
        if other is None:
            return
        for k, v in other.counts.items():
            self.counts[k] = self.counts.get(k, 0) + v
        for s in other.samples:
            self.sample(s)
        for name, st in other.sets.items():
            mine = self.sets.setdefault(name, set())
            if len(mine) < SET_CAP:
                mine.update(st)
            elif st:
                self.counts["set_cap_reached:" + name] = 1  # statistic only: reported as a lower bound, memory stays bounded
        for v in other.violations:
            n = sum(1 for w in self.violations if w["key"] == v["key"])
            if n < MAX_REPLAYS_PER_SIG and (n or len({w["key"] for w in self.violations}) < MAX_DISTINCT_SIGS):
                self.violations.append(v)
        for c in other.caps:
            self.cap(c)
        self.notes.update(other.notes)


_POOL_FN = None


def _pool_call(arg):
    try:
        return ("ok", _POOL_FN(arg))
    except HarnessError as e:
        return ("harness", f"{e}\n{traceback.format_exc()}")
    except BaseException as e:  # noqa: BLE001 - reported as harness error with traceback
        return ("libraise" if _raised_in_library(e) else "harness", f"{type(e).__name__}: {e}\n{traceback.format_exc()}")


class LibraryRaised(Exception):
    """The code under test raised an exception the check did not anticipate, on an input inside the property's domain."""


def _raised_in_library(exc):
    """True when the innermost frame of the traceback is a file of the library under test (not of /verif, not of the stdlib)."""
    tb = exc.__traceback__
    last = None
    while tb is not None:
        last = tb.tb_frame.f_code.co_filename
        tb = tb.tb_next
    repo = os.path.realpath(os.environ.get("VERIF_REPO", "/repo"))
    return bool(last) and os.path.realpath(last).startswith(os.path.join(repo, "aiokafka") + os.sep)


class Ctx(Acc):
    def __init__(self, prop, tier, seed, jobs):
        super().__init__()
        self.prop = prop
        self.tier = tier
        self.quick = tier == "quick"
        self.seed = seed
        self.jobs = jobs
        self.assumptions = []
        self.rule = ""
        self.exhaustive = True
        self.bounds = {}
        self.t0 = time.time()

    def log(self, *a):
        print(f"[{self.prop} {time.time() - self.t0:6.1f}s]", *a, flush=True)

    def pmap(self, fn, shards, merge=True, chunksize=1, each=None):
        """Run fn(shard) -> Acc over shards in long-lived worker processes (fork once)."""
        global _POOL_FN
        shards = list(shards)
        if self.seed:
            import random

            random.Random(self.seed).shuffle(shards)  # seed only permutes shard order
        results = []
        if self.jobs <= 1 or len(shards) <= 1:
            for s in shards:
                r = fn(s)
                if each is not None:
                    each(r)
                elif merge:
                    self.merge(r)
                else:
                    results.append(r)
            return results
        _POOL_FN = fn
        ctx = multiprocessing.get_context("fork")
        with ctx.Pool(min(self.jobs, len(shards))) as pool:
            for status, r in pool.imap_unordered(_pool_call, shards, chunksize):
                if status != "ok":
                    pool.terminate()
                    raise (LibraryRaised if status == "libraise" else HarnessError)(r)
                if each is not None:
                    each(r)  # consumed at once: nothing is kept per shard (memory stays bounded on large frontiers)
                elif merge:
                    self.merge(r)
                else:
                    results.append(r)
        return results


def load_findings():
    if not os.path.exists(FINDINGS_FILE):
        return []
    with open(FINDINGS_FILE) as f:
        return json.load(f).get("findings", [])


def match_finding(findings, prop, sig):
    for f in findings:
        if f.get("property") != prop or f.get("status") != "known":
            continue
        m = f.get("match", {})
        if m and all(sig.get(k) == v for k, v in m.items()):
            return f
    return None


def write_evidence(ctx, level, n_viol, wall):
    cov = dict(ctx.counts)
    evaluations = int(cov.get("evaluations", 0))
    distinct = len(ctx.sets.get("distinct", ())) or int(cov.get("distinct_executions", 0))
    cov["evaluations"] = evaluations
    cov["distinct_nontrivial"] = distinct
    cov["rule"] = ctx.rule
    cov["samples"] = ctx.samples[:MAX_SAMPLES] or ["<none>"]
    cov["exhaustive"] = bool(ctx.exhaustive and not ctx.caps)
    cov["caps_hit"] = ctx.caps
    cov["bounds"] = ctx.bounds
    for name, st in ctx.sets.items():
        if name != "distinct":
            cov["distinct_" + name] = len(st)
    if level == "model_checking":
        cov["states"] = max(1, len(ctx.sets.get("states", ())))
        cov["transitions"] = max(1, int(cov.get("transitions", 0)))
        cov["traces_validated_against_impl"] = int(cov.get("traces_validated_against_impl", evaluations))
    cov.update(ctx.notes)
    ev = {
        "property_id": ctx.prop,
        "tier": ctx.tier,
        "seed": ctx.seed,
        "level": level,
        "coverage": cov,
        "assumptions": ctx.assumptions,
        "wall_s": round(wall, 3),
        "violations": n_viol,
    }
    os.makedirs(EVIDENCE_DIR, exist_ok=True)
    path = os.path.join(EVIDENCE_DIR, f"{ctx.prop}.json")
    tmp = path + ".tmp"
    with open(tmp, "w") as f:
        json.dump(ev, f, indent=1, default=str)
        f.write("\n")
    os.replace(tmp, path)
    return path


def main(argv=None):
    ap = argparse.ArgumentParser()
    ap.add_argument("prop")
    ap.add_argument("--tier", default=os.environ.get("VERIF_TIER") or "quick", choices=["quick", "thorough"])
    ap.add_argument("--replay")
    ap.add_argument("--jobs", type=int, default=int(os.environ.get("VERIF_JOBS") or min(16, os.cpu_count() or 1)))
    ap.add_argument("--only", default=None, help="restrict to scenarios whose name contains this (debugging)")
    args = ap.parse_args(argv)
    try:
        seed = int(os.environ.get("VERIF_SEED") or 0)
    except ValueError:
        seed = 0
    if os.environ.get("PYTHONHASHSEED") != "0":
        os.environ["PYTHONHASHSEED"] = "0"
        os.execv(sys.executable, [sys.executable, "-m", "vf.runner"] + (argv or sys.argv[1:]))
    os.chdir(ROOT)
    os.environ["VERIF_TIER_EFFECTIVE"] = args.tier  # visible to worker subprocesses (e.g. the ASan decoder workers)
    sys.setrecursionlimit(10000)
    from vf import build

    build.install("plain")  # working-tree Cython codec, never the possibly stale .so in /repo
    mod = importlib.import_module(f"vf.props.{args.prop}")
    ctx = Ctx(args.prop, args.tier, seed, args.jobs)
    ctx.only = args.only
    level = getattr(mod, "LEVEL", "model_checking")
    if args.replay:
        with open(args.replay) as f:
            data = json.load(f)
        try:
            rc = mod.replay(ctx, data.get("replay", data))
        except HarnessError as e:
            print(f"HARNESS-ERROR property={args.prop} {e}")
            return 2
        return int(rc or 0)
    try:
        mod.run(ctx)
    except HarnessError as e:
        print(f"HARNESS-ERROR property={args.prop} {e}", flush=True)
        return 2
    except Exception as e:  # noqa: BLE001
        text = str(e) if isinstance(e, LibraryRaised) else traceback.format_exc()
        if not (isinstance(e, LibraryRaised) or _raised_in_library(e)):
            print(f"HARNESS-ERROR property={args.prop} unexpected exception\n{text}", flush=True)
            return 2
        # The library itself raised, from inside its own code, while the check was feeding it an input of the property's domain
        # and the check had no branch for that: the remaining cases were not run. Reported as a violation with the traceback.
        last = [ln for ln in text.strip().splitlines() if ln.strip()][-1]
        ctx.violation("library-raised", {"what": "unanticipated-exception", "type": last.split(":")[0][:60]},
                      {"traceback": text[-4000:]}, f"the code under test raised {last[:300]} (run aborted; traceback in the replay file)")
        ctx.cap("run aborted by an exception raised inside the library")
    wall = time.time() - ctx.t0
    findings = load_findings()
    new = []
    known = {}
    for v in ctx.violations:
        f = match_finding(findings, args.prop, v["sig"])
        if f is not None:
            known.setdefault(f["id"], (f, v))
        else:
            new.append(v)
    for fid, (f, v) in sorted(known.items()):
        print(f"KNOWN-FINDING: property={args.prop} {f['what']} [{fid}]")
    os.makedirs(REPLAY_DIR, exist_ok=True)
    for i, v in enumerate(new):
        path = os.path.join("replays", f"{args.prop}-{i}.json")
        with open(os.path.join(OUT, path), "w") as f:
            json.dump({"property": args.prop, "oracle": v["oracle"], "sig": v["sig"], "msg": v["msg"],
                       "replay": v["replay"]}, f, indent=1, default=str)
            f.write("\n")
        print(f"VIOLATION property={args.prop} replay={path}")
        print(f"  oracle={v['oracle']} :: {v['msg']}")
    ctx.notes["known_findings_seen"] = sorted(known)
    path = write_evidence(ctx, level, len(new), wall)
    print(f"[{args.prop}] tier={args.tier} evaluations={ctx.counts.get('evaluations', 0)} "
          f"distinct={len(ctx.sets.get('distinct', ()))} states={len(ctx.sets.get('states', ()))} "
          f"violations={len(new)} known={len(known)} caps={ctx.caps} wall={wall:.1f}s evidence={os.path.relpath(path, OUT)}")
    return 1 if new else 0


if __name__ == "__main__":
    sys.exit(main())
