"""E3 - independent Kafka record codec, written from the Kafka message-format definition.

Nothing here imports aiokafka.  Compression *primitives* are trusted (zlib, cramjam raw snappy,
cramjam lz4 block, cramjam zstd); the container framings (gzip member via zlib, xerial snappy
stream, LZ4 frame incl. the pre-0.10 Kafka variant with the wrong header checksum) are written here.

Formats
-------
message set v0/v1 (one "batch" = one top-level message):
    offset:int64 size:int32 | crc:uint32 magic:int8 attributes:int8 [timestamp:int64 (v1)]
    keylen:int32 key valuelen:int32 value
    crc = CRC-32 (zlib polynomial) over magic..end.  attributes: bits 0-2 compression
    (0 none, 1 gzip, 2 snappy, 3 lz4), bit 3 timestamp type (v1; 0 CreateTime, 1 LogAppendTime).
    A compressed wrapper message has a null key and value = compress(inner message set).  Inner
    offsets are absolute for v0; for v1 they are relative 0..n-1 and the wrapper's offset is the
    absolute offset of the last inner message (absolute = wrapper - last_relative + relative, applied
    only if wrapper - last_relative >= 0, exactly as Kafka's deep iterator does: a producer-side
    wrapper carries offset 0/n-1 and the inner offsets stay relative).  With a LogAppendTime wrapper
    every inner record takes the wrapper's timestamp and timestamp type.
record batch v2 (61-byte header):
    baseOffset:int64 batchLength:int32 partitionLeaderEpoch:int32 magic:int8 crc:uint32
    attributes:int16 lastOffsetDelta:int32 firstTimestamp:int64 maxTimestamp:int64 producerId:int64
    producerEpoch:int16 baseSequence:int32 recordCount:int32 records...
    crc = CRC-32C (Castagnoli) over attributes..end.  attributes: bits 0-2 compression (.. 4 zstd),
    bit 3 timestampType, bit 4 isTransactional, bit 5 isControl.  With compression the bytes after
    recordCount are compress(records).  record = length:varint attributes:int8 timestampDelta:varlong
    offsetDelta:varint keyLen:varint key valueLen:varint value headerCount:varint
    (hkeyLen:varint hkey hvalLen:varint hval)*; varints are zig-zag base-128.
    Control record: key = version:int16 type:int16 (0 abort, 1 commit); value = version:int16
    coordinatorEpoch:int32.

API
---
Record(offset, timestamp, key, value, headers, attributes=0, timestamp_type=None)
    timestamp is None for magic 0; headers is a list of (str, bytes|None); timestamp_type None for magic 0.
Batch(magic, base_offset, last_offset, attributes, compression, timestamp_type, is_transactional,
      is_control, producer_id, producer_epoch, base_sequence, first_timestamp, max_timestamp,
      partition_leader_epoch, record_count, records, raw, crc_ok)
    v2: last_offset = base_offset + lastOffsetDelta, record_count = header field.
    v0/v1: one Batch per top-level message; last_offset = the message's offset, base_offset = first
    decoded record's offset, first/max_timestamp = the message's timestamp (-1 for v0), producer
    fields -1, record_count = len(records).
    Batch.next_offset = last_offset + 1.
decode(data) -> list[Batch]       split + decode concatenated batches of any magic mix; a trailing
                                  partial batch is ignored; CodecError on malformed data (CRC mismatch
                                  is not an error: see Batch.crc_ok)
decode_batch(raw) -> Batch        one complete batch
iter_raw_batches(data)            yields (magic, base_offset, raw_bytes) without decoding records
encode_v2(records, base_offset=0, compression=0, timestamp_type=0, transactional=False, control=False,
          producer_id=-1, producer_epoch=-1, base_sequence=-1, partition_leader_epoch=-1,
          last_offset_delta=None, first_timestamp=None, max_timestamp=None) -> bytes
    records: (timestamp, key, value, headers) [offset delta = index] or
             (offset_delta, timestamp, key, value, headers) or Record (delta = offset - base_offset).
    Compaction gaps: explicit deltas / last_offset_delta beyond the last record; records=[] gives an
    empty batch (recordCount 0).
encode_legacy(magic, records, compression=0, base_offset=0, timestamp_type=0, wrapper_timestamp=None) -> bytes
    records: (timestamp, key, value) or (timestamp, key, value, headers-ignored) or Record; consecutive
    offsets from base_offset.  Uncompressed: the concatenated messages; compressed: one wrapper.
control_batch(base_offset, producer_id, producer_epoch, commit, timestamp, coordinator_epoch=0) -> bytes
rebase(raw, base_offset, log_append_time=None) -> bytes   what a broker does on append (one v2 batch,
    one legacy wrapper, or a run of legacy/v2 batches which get consecutive offsets)
validate(raw_batch, compacted=False) -> list[str]   structural validator, [] = well-formed
crc32(data), crc32c(data), encode_varint(n) -> bytes, decode_varint(buf, pos) -> (n, pos),
size_of_varint(n), zigzag(n), unzigzag(u)
compress(codec, data, magic=2) / decompress(codec, data, magic=2)
xerial_encode/xerial_decode, lz4_frame_encode/lz4_frame_decode, xxh32
fields(raw_batch) -> list[Field(name, pos, size, kind)]  position of every fixed and varint field of
    a batch (of the uncompressed body for plain batches); inner_payload(raw) / with_inner_payload(raw, p)
    read / replace the *uncompressed* inner bytes of a compressed batch (lengths and CRC re-computed);
    inner_fields(raw) = fields of that inner payload.
"""
import struct
import zlib
from dataclasses import dataclass, field

import cramjam

NONE, GZIP, SNAPPY, LZ4, ZSTD = 0, 1, 2, 3, 4
CODEC_NAMES = {0: "none", 1: "gzip", 2: "snappy", 3: "lz4", 4: "zstd"}
CREATE_TIME, LOG_APPEND_TIME = 0, 1
V2_HEADER = 61
LOG_OVERHEAD = 12
MIN_LEGACY = {0: 26, 1: 34}


class CodecError(Exception):
    """The bytes are not a well-formed Kafka batch."""


# ---------------------------------------------------------------- checksums
def crc32(data):
    return zlib.crc32(bytes(data)) & 0xFFFFFFFF


def _make_crc32c_table():
    poly = 0x82F63B78  # 0x1EDC6F41 bit-reflected
    table = []
    for n in range(256):
        c = n
        for _ in range(8):
            c = (c >> 1) ^ poly if c & 1 else c >> 1
        table.append(c)
    return table


_CRC32C = _make_crc32c_table()


def crc32c(data, crc=0):
    c = crc ^ 0xFFFFFFFF
    t = _CRC32C
    for b in bytes(data):
        c = t[(c ^ b) & 0xFF] ^ (c >> 8)
    return c ^ 0xFFFFFFFF


_P1, _P2, _P3, _P4, _P5 = 2654435761, 2246822519, 3266489917, 668265263, 374761393
_M32 = 0xFFFFFFFF


def _rotl(x, r):
    return ((x << r) | (x >> (32 - r))) & _M32


def xxh32(data, seed=0):
    """XXH32 as used by the LZ4 frame format (header / content checksum)."""
    data = bytes(data)
    n = len(data)
    i = 0
    if n >= 16:
        v1 = (seed + _P1 + _P2) & _M32
        v2 = (seed + _P2) & _M32
        v3 = seed & _M32
        v4 = (seed - _P1) & _M32
        while i + 16 <= n:
            a, b, c, d = struct.unpack_from("<IIII", data, i)
            v1 = (_rotl((v1 + a * _P2) & _M32, 13) * _P1) & _M32
            v2 = (_rotl((v2 + b * _P2) & _M32, 13) * _P1) & _M32
            v3 = (_rotl((v3 + c * _P2) & _M32, 13) * _P1) & _M32
            v4 = (_rotl((v4 + d * _P2) & _M32, 13) * _P1) & _M32
            i += 16
        h = (_rotl(v1, 1) + _rotl(v2, 7) + _rotl(v3, 12) + _rotl(v4, 18)) & _M32
    else:
        h = (seed + _P5) & _M32
    h = (h + n) & _M32
    while i + 4 <= n:
        (w,) = struct.unpack_from("<I", data, i)
        h = (_rotl((h + w * _P3) & _M32, 17) * _P4) & _M32
        i += 4
    while i < n:
        h = (_rotl((h + data[i] * _P5) & _M32, 11) * _P1) & _M32
        i += 1
    h ^= h >> 15
    h = (h * _P2) & _M32
    h ^= h >> 13
    h = (h * _P3) & _M32
    h ^= h >> 16
    return h


# ---------------------------------------------------------------- varints
def zigzag(n):
    return ((n << 1) ^ (n >> 63)) & 0xFFFFFFFFFFFFFFFF


def unzigzag(u):
    return (u >> 1) ^ -(u & 1)


def encode_varint(n):
    u = zigzag(n)
    out = bytearray()
    while u > 0x7F:
        out.append(0x80 | (u & 0x7F))
        u >>= 7
    out.append(u)
    return bytes(out)


def size_of_varint(n):
    return len(encode_varint(n))


def decode_varint(buf, pos=0):
    """-> (value, next_pos); CodecError on truncation or more than 10 bytes."""
    u = 0
    shift = 0
    start = pos
    while True:
        if pos >= len(buf):
            raise CodecError(f"varint at {start} runs past the end")
        b = buf[pos]
        pos += 1
        u |= (b & 0x7F) << shift
        if not b & 0x80:
            break
        shift += 7
        if shift > 63:
            raise CodecError(f"varint at {start} longer than 10 bytes")
    u &= 0xFFFFFFFFFFFFFFFF
    return unzigzag(u), pos


# ---------------------------------------------------------------- compression containers
_XERIAL_HEADER = b"\x82SNAPPY\x00" + struct.pack(">ii", 1, 1)


def xerial_encode(data, blocksize=32 * 1024):
    """snappy-java SnappyOutputStream framing: 16-byte header, then (int32 length, raw snappy block)*."""
    data = bytes(data)
    out = bytearray(_XERIAL_HEADER)
    for i in range(0, len(data), blocksize):
        block = bytes(cramjam.snappy.compress_raw(data[i:i + blocksize]))
        out += struct.pack(">i", len(block)) + block
    return bytes(out)


def xerial_decode(data):
    data = bytes(data)
    if data[:8] != _XERIAL_HEADER[:8]:
        try:
            return bytes(cramjam.snappy.decompress_raw(data))  # plain raw snappy (non-Java producers)
        except Exception as e:  # noqa: BLE001
            raise CodecError(f"snappy: {e}") from None
    if len(data) < 16:
        raise CodecError("xerial header truncated")
    pos = 16
    out = bytearray()
    while pos < len(data):
        if pos + 4 > len(data):
            raise CodecError("xerial block length truncated")
        (n,) = struct.unpack_from(">i", data, pos)
        pos += 4
        if n < 0 or pos + n > len(data):
            raise CodecError("xerial block length out of range")
        try:
            out += bytes(cramjam.snappy.decompress_raw(data[pos:pos + n]))
        except Exception as e:  # noqa: BLE001
            raise CodecError(f"snappy: {e}") from None
        pos += n
    return bytes(out)


_LZ4_MAGIC = 0x184D2204
_LZ4_BLOCK_MAX = {4: 64 << 10, 5: 256 << 10, 6: 1 << 20, 7: 4 << 20}


def lz4_frame_encode(data, broken_header_checksum=False):
    """LZ4 frame, version 01, independent 64 KiB blocks, no block/content checksum, no content size.

    broken_header_checksum: Kafka < 0.10 (message format v0) computed the descriptor checksum over
    the frame magic as well (KAFKA-3160)."""
    data = bytes(data)
    flg = 0x60  # version 01, block independence
    bd = 0x40  # 64 KiB
    desc = bytes([flg, bd])
    magic = struct.pack("<I", _LZ4_MAGIC)
    hc = (xxh32(magic + desc if broken_header_checksum else desc) >> 8) & 0xFF
    out = bytearray(magic + desc + bytes([hc]))
    bs = _LZ4_BLOCK_MAX[4]
    for i in range(0, len(data), bs):
        chunk = data[i:i + bs]
        comp = bytes(cramjam.lz4.compress_block(chunk, store_size=False))
        if len(comp) >= len(chunk):
            out += struct.pack("<I", len(chunk) | 0x80000000) + chunk
        else:
            out += struct.pack("<I", len(comp)) + comp
    out += struct.pack("<I", 0)
    return bytes(out)


def lz4_frame_decode(data, ignore_header_checksum=False):
    data = bytes(data)
    if len(data) < 7 or struct.unpack_from("<I", data, 0)[0] != _LZ4_MAGIC:
        raise CodecError("lz4: bad frame magic")
    flg, bd = data[4], data[5]
    if (flg >> 6) != 1:
        raise CodecError("lz4: unsupported frame version")
    block_checksum = bool(flg & 0x10)
    content_size = bool(flg & 0x08)
    content_checksum = bool(flg & 0x04)
    dict_id = bool(flg & 0x01)
    bmax = _LZ4_BLOCK_MAX.get((bd >> 4) & 7)
    if bmax is None:
        raise CodecError("lz4: bad block size")
    pos = 6 + (8 if content_size else 0) + (4 if dict_id else 0)
    if pos >= len(data):
        raise CodecError("lz4: truncated descriptor")
    hc = data[pos]
    if not ignore_header_checksum:
        good = (xxh32(data[4:pos]) >> 8) & 0xFF
        broken = (xxh32(data[0:pos]) >> 8) & 0xFF
        if hc != good and hc != broken:
            raise CodecError("lz4: descriptor checksum mismatch")
    pos += 1
    out = bytearray()
    while True:
        if pos + 4 > len(data):
            raise CodecError("lz4: truncated block size")
        (n,) = struct.unpack_from("<I", data, pos)
        pos += 4
        if n == 0:
            break
        raw = bool(n & 0x80000000)
        n &= 0x7FFFFFFF
        if pos + n > len(data):
            raise CodecError("lz4: truncated block")
        block = data[pos:pos + n]
        pos += n
        if block_checksum:
            pos += 4
        if raw:
            out += block
        else:
            try:
                tmp = bytearray(bmax)
                got = cramjam.lz4.decompress_block_into(block, tmp)
                out += tmp[:got]
            except Exception as e:  # noqa: BLE001
                raise CodecError(f"lz4: {e}") from None
    if content_checksum:
        if pos + 4 > len(data):
            raise CodecError("lz4: truncated content checksum")
        if struct.unpack_from("<I", data, pos)[0] != xxh32(out):
            raise CodecError("lz4: content checksum mismatch")
    return bytes(out)


def gzip_encode(data):
    c = zlib.compressobj(9, zlib.DEFLATED, 31)  # wbits 31 = gzip member
    return c.compress(bytes(data)) + c.flush()


def gzip_decode(data):
    data = bytes(data)
    out = bytearray()
    try:
        while data:
            d = zlib.decompressobj(31)
            out += d.decompress(data)
            if not d.eof:
                raise CodecError("gzip: truncated member")
            data = d.unused_data
    except zlib.error as e:
        raise CodecError(f"gzip: {e}") from None
    return bytes(out)


def compress(codec, data, magic=2):
    if codec == NONE:
        return bytes(data)
    if codec == GZIP:
        return gzip_encode(data)
    if codec == SNAPPY:
        return xerial_encode(data)  # the Java client writes the xerial stream for every magic
    if codec == LZ4:
        return lz4_frame_encode(data, broken_header_checksum=(magic == 0))
    if codec == ZSTD:
        if magic < 2:
            raise CodecError("zstd needs record batch v2")
        return bytes(cramjam.zstd.compress(bytes(data), level=3))
    raise CodecError(f"unknown codec {codec}")


def decompress(codec, data, magic=2):
    if codec == NONE:
        return bytes(data)
    if codec == GZIP:
        return gzip_decode(data)
    if codec == SNAPPY:
        return xerial_decode(data)
    if codec == LZ4:
        return lz4_frame_decode(data, ignore_header_checksum=(magic == 0))
    if codec == ZSTD:
        if magic < 2:
            raise CodecError("zstd needs record batch v2")
        try:
            return bytes(cramjam.zstd.decompress(bytes(data)))
        except Exception as e:  # noqa: BLE001
            raise CodecError(f"zstd: {e}") from None
    raise CodecError(f"unknown codec {codec}")


# ---------------------------------------------------------------- data model
@dataclass
class Record:
    offset: int
    timestamp: int | None
    key: bytes | None
    value: bytes | None
    headers: list = field(default_factory=list)
    attributes: int = 0
    timestamp_type: int | None = None


@dataclass
class Batch:
    magic: int
    base_offset: int
    last_offset: int
    attributes: int
    compression: int
    timestamp_type: int | None
    is_transactional: bool
    is_control: bool
    producer_id: int
    producer_epoch: int
    base_sequence: int
    first_timestamp: int
    max_timestamp: int
    partition_leader_epoch: int
    record_count: int
    records: list
    raw: bytes
    crc_ok: bool

    @property
    def next_offset(self):
        return self.last_offset + 1


@dataclass(frozen=True)
class Field:
    name: str
    pos: int
    size: int
    kind: str  # int8 int16 int32 int64 uint32 varint bytes


# ---------------------------------------------------------------- v2
_V2 = struct.Struct(">qiibIhiqqqhii")
assert _V2.size == V2_HEADER


def _norm_v2_records(records, base_offset):
    out = []
    for i, r in enumerate(records):
        if isinstance(r, Record):
            out.append((r.offset - base_offset, r.timestamp, r.key, r.value, list(r.headers or []), r.attributes))
        elif len(r) == 4:
            out.append((i, r[0], r[1], r[2], list(r[3] or []), 0))
        elif len(r) == 5:
            out.append((r[0], r[1], r[2], r[3], list(r[4] or []), 0))
        else:
            raise ValueError(f"bad record tuple {r!r}")
    return out


def _encode_v2_record(delta, ts_delta, key, value, headers, attributes=0):
    body = bytearray([attributes & 0xFF])
    body += encode_varint(ts_delta)
    body += encode_varint(delta)
    for b in (key, value):
        if b is None:
            body += encode_varint(-1)
        else:
            body += encode_varint(len(b)) + bytes(b)
    body += encode_varint(len(headers))
    for hk, hv in headers:
        hkb = hk.encode("utf-8") if isinstance(hk, str) else bytes(hk)
        body += encode_varint(len(hkb)) + hkb
        if hv is None:
            body += encode_varint(-1)
        else:
            body += encode_varint(len(hv)) + bytes(hv)
    return encode_varint(len(body)) + bytes(body)


def encode_v2(records, base_offset=0, compression=0, timestamp_type=0, transactional=False, control=False,
              producer_id=-1, producer_epoch=-1, base_sequence=-1, partition_leader_epoch=-1,
              last_offset_delta=None, first_timestamp=None, max_timestamp=None, magic=2):
    recs = _norm_v2_records(records, base_offset)
    if first_timestamp is None:
        first_timestamp = recs[0][1] if recs else -1
    if max_timestamp is None:
        max_timestamp = max((r[1] for r in recs), default=-1)
    if last_offset_delta is None:
        last_offset_delta = recs[-1][0] if recs else 0
    body = bytearray()
    for delta, ts, key, value, headers, attrs in recs:
        body += _encode_v2_record(delta, ts - first_timestamp, key, value, headers, attrs)
    attributes = (compression & 7) | (8 if timestamp_type else 0) | (0x10 if transactional else 0) | (0x20 if control else 0)
    payload = compress(compression & 7, bytes(body), 2)
    tail = struct.pack(">hiqqqhii", attributes, last_offset_delta, first_timestamp, max_timestamp,
                       producer_id, producer_epoch, base_sequence, len(recs)) + payload
    crc = crc32c(tail)
    length = 4 + 1 + 4 + len(tail)
    return struct.pack(">qiibI", base_offset, length, partition_leader_epoch, magic, crc) + tail


def control_batch(base_offset, producer_id, producer_epoch, commit, timestamp, coordinator_epoch=0):
    key = struct.pack(">hh", 0, 1 if commit else 0)
    value = struct.pack(">hi", 0, coordinator_epoch)
    return encode_v2([(timestamp, key, value, [])], base_offset=base_offset, transactional=True, control=True,
                     producer_id=producer_id, producer_epoch=producer_epoch, base_sequence=-1)


def _parse_v2_records(body, count, base_offset, first_ts, max_ts, ts_type, fields_out=None, origin=0):
    """Parse `count` records from `body`; returns (records, end_pos)."""
    pos = 0
    out = []

    def note(name, p0, p1, kind):
        if fields_out is not None and (p1 > p0 or kind != "bytes"):
            fields_out.append(Field(name, origin + p0, p1 - p0, kind))

    for i in range(count):
        p0 = pos
        length, pos = decode_varint(body, pos)
        note(f"r{i}.length", p0, pos, "varint")
        if length < 0:
            raise CodecError(f"record {i}: negative length {length}")
        start = pos
        end = start + length
        if end > len(body):
            raise CodecError(f"record {i}: length {length} runs past the end of the batch")
        if pos >= end:
            raise CodecError(f"record {i}: empty body")
        attrs = body[pos]
        note(f"r{i}.attributes", pos, pos + 1, "int8")
        pos += 1
        p0 = pos
        ts_delta, pos = decode_varint(body, pos)
        note(f"r{i}.timestampDelta", p0, pos, "varint")
        p0 = pos
        off_delta, pos = decode_varint(body, pos)
        note(f"r{i}.offsetDelta", p0, pos, "varint")
        kv = []
        for nm in ("key", "value"):
            p0 = pos
            n, pos = decode_varint(body, pos)
            note(f"r{i}.{nm}Len", p0, pos, "varint")
            if n < -1:
                raise CodecError(f"record {i}: {nm} length {n}")
            if n == -1:
                kv.append(None)
            else:
                if pos + n > end:
                    raise CodecError(f"record {i}: {nm} of {n} bytes runs past the record end")
                kv.append(bytes(body[pos:pos + n]))
                note(f"r{i}.{nm}", pos, pos + n, "bytes")
                pos += n
        p0 = pos
        nh, pos = decode_varint(body, pos)
        note(f"r{i}.headerCount", p0, pos, "varint")
        if nh < 0:
            raise CodecError(f"record {i}: header count {nh}")
        headers = []
        for j in range(nh):
            p0 = pos
            n, pos = decode_varint(body, pos)
            note(f"r{i}.h{j}.keyLen", p0, pos, "varint")
            if n < 0 or pos + n > end:
                raise CodecError(f"record {i}: header key length {n}")
            try:
                hk = bytes(body[pos:pos + n]).decode("utf-8")
            except UnicodeDecodeError:
                raise CodecError(f"record {i}: header key is not UTF-8") from None
            note(f"r{i}.h{j}.key", pos, pos + n, "bytes")
            pos += n
            p0 = pos
            n, pos = decode_varint(body, pos)
            note(f"r{i}.h{j}.valueLen", p0, pos, "varint")
            if n < -1:
                raise CodecError(f"record {i}: header value length {n}")
            if n == -1:
                hv = None
            else:
                if pos + n > end:
                    raise CodecError(f"record {i}: header value runs past the record end")
                hv = bytes(body[pos:pos + n])
                note(f"r{i}.h{j}.value", pos, pos + n, "bytes")
                pos += n
            headers.append((hk, hv))
        if pos != end:
            raise CodecError(f"record {i}: length {length} but {pos - start} bytes consumed")
        ts = max_ts if ts_type == LOG_APPEND_TIME else first_ts + ts_delta
        out.append(Record(base_offset + off_delta, ts, kv[0], kv[1], headers, attrs, ts_type))
    return out, pos


def _decode_v2(raw, fields_out=None):
    if len(raw) < V2_HEADER:
        raise CodecError(f"v2 batch of {len(raw)} bytes is shorter than its 61-byte header")
    (base, length, ple, magic, crc, attrs, lod, first_ts, max_ts, pid, pepoch, bseq, count) = _V2.unpack_from(raw, 0)
    if length != len(raw) - LOG_OVERHEAD:
        raise CodecError(f"v2 batchLength {length} != {len(raw) - LOG_OVERHEAD}")
    if fields_out is not None:
        for name, pos, size, kind in (
                ("baseOffset", 0, 8, "int64"), ("batchLength", 8, 4, "int32"), ("partitionLeaderEpoch", 12, 4, "int32"),
                ("magic", 16, 1, "int8"), ("crc", 17, 4, "uint32"), ("attributes", 21, 2, "int16"),
                ("lastOffsetDelta", 23, 4, "int32"), ("firstTimestamp", 27, 8, "int64"), ("maxTimestamp", 35, 8, "int64"),
                ("producerId", 43, 8, "int64"), ("producerEpoch", 51, 2, "int16"), ("baseSequence", 53, 4, "int32"),
                ("recordCount", 57, 4, "int32")):
            fields_out.append(Field(name, pos, size, kind))
    crc_ok = crc == crc32c(raw[21:])
    codec = attrs & 7
    if codec > ZSTD:
        raise CodecError(f"v2 unknown compression codec {codec}")
    ts_type = 1 if attrs & 8 else 0
    if count < 0:
        raise CodecError(f"v2 recordCount {count}")
    body = raw[V2_HEADER:]
    if codec:
        body = decompress(codec, body, 2)
        inner_fields = None
    else:
        inner_fields = fields_out
    records, end = _parse_v2_records(body, count, base, first_ts, max_ts, ts_type, inner_fields, V2_HEADER)
    if end != len(body):
        raise CodecError(f"v2 {len(body) - end} bytes after the last record")
    return Batch(magic, base, base + lod, attrs, codec, ts_type, bool(attrs & 0x10), bool(attrs & 0x20), pid, pepoch,
                 bseq, first_ts, max_ts, ple, count, records, bytes(raw), crc_ok)


# ---------------------------------------------------------------- v0 / v1
def _encode_legacy_msg(magic, offset, timestamp, key, value, attributes=0):
    body = bytearray(struct.pack(">bb", magic, attributes))
    if magic == 1:
        body += struct.pack(">q", timestamp)
    for b in (key, value):
        if b is None:
            body += struct.pack(">i", -1)
        else:
            body += struct.pack(">i", len(b)) + bytes(b)
    crc = crc32(body)
    return struct.pack(">qiI", offset, len(body) + 4, crc) + bytes(body)


def _norm_legacy_records(records):
    out = []
    for r in records:
        if isinstance(r, Record):
            out.append((r.timestamp, r.key, r.value))
        else:
            out.append((r[0], r[1], r[2]))
    return out


def encode_legacy(magic, records, compression=0, base_offset=0, timestamp_type=0, wrapper_timestamp=None):
    if magic not in (0, 1):
        raise ValueError("magic must be 0 or 1")
    recs = _norm_legacy_records(records)
    tbit = 8 if (timestamp_type and magic == 1) else 0
    if not compression:
        return b"".join(_encode_legacy_msg(magic, base_offset + i, ts if ts is not None else -1, k, v, tbit)
                        for i, (ts, k, v) in enumerate(recs))
    if not recs:
        raise ValueError("a compressed wrapper needs at least one message")
    inner = b"".join(_encode_legacy_msg(magic, (base_offset + i) if magic == 0 else i, ts if ts is not None else -1, k, v, 0)
                     for i, (ts, k, v) in enumerate(recs))
    if wrapper_timestamp is None:
        wrapper_timestamp = max((ts for ts, _, _ in recs if ts is not None), default=-1) if magic == 1 else -1
    return _encode_legacy_msg(magic, base_offset + len(recs) - 1, wrapper_timestamp, None,
                              compress(compression, inner, magic), (compression & 7) | tbit)


def _parse_legacy_msg(buf, pos, fields_out=None, prefix="", origin=0):
    """One message at `pos`; returns (dict, next_pos)."""
    if pos + LOG_OVERHEAD > len(buf):
        raise CodecError("message header truncated")
    offset, size = struct.unpack_from(">qi", buf, pos)
    if size < 14:
        raise CodecError(f"message size {size} below the v0 minimum of 14")
    end = pos + LOG_OVERHEAD + size
    if end > len(buf):
        raise CodecError(f"message size {size} runs past the end")
    crc, magic, attrs = struct.unpack_from(">Ibb", buf, pos + 12)
    if magic not in (0, 1):
        raise CodecError(f"legacy message with magic {magic}")
    p = pos + 18

    def note(name, p0, size_, kind):
        if fields_out is not None and (size_ > 0 or kind != "bytes"):
            fields_out.append(Field(prefix + name, origin + p0, size_, kind))

    note("offset", pos, 8, "int64")
    note("size", pos + 8, 4, "int32")
    note("crc", pos + 12, 4, "uint32")
    note("magic", pos + 16, 1, "int8")
    note("attributes", pos + 17, 1, "int8")
    ts = None
    if magic == 1:
        if p + 8 > end:
            raise CodecError("v1 message too short for its timestamp")
        (ts,) = struct.unpack_from(">q", buf, p)
        note("timestamp", p, 8, "int64")
        p += 8
    kv = []
    for nm in ("key", "value"):
        if p + 4 > end:
            raise CodecError(f"message too short for its {nm} length")
        (n,) = struct.unpack_from(">i", buf, p)
        note(nm + "Len", p, 4, "int32")
        p += 4
        if n < -1:
            raise CodecError(f"{nm} length {n}")
        if n == -1:
            kv.append(None)
        else:
            if p + n > end:
                raise CodecError(f"{nm} of {n} bytes runs past the message end")
            kv.append(bytes(buf[p:p + n]))
            note(nm, p, n, "bytes")
            p += n
    if p != end:
        raise CodecError(f"message size {size} but {p - pos - LOG_OVERHEAD} bytes consumed")
    crc_ok = crc == crc32(buf[pos + 16:end])
    return dict(offset=offset, size=size, crc=crc, magic=magic, attrs=attrs, timestamp=ts, key=kv[0], value=kv[1],
                crc_ok=crc_ok, raw=bytes(buf[pos:end])), end


def _parse_message_set(buf, fields_out=None, prefix="", origin=0):
    pos = 0
    msgs = []
    while pos < len(buf):
        m, pos = _parse_legacy_msg(buf, pos, fields_out, f"{prefix}m{len(msgs)}.", origin)
        msgs.append(m)
    return msgs


def _decode_legacy(raw, fields_out=None):
    m, end = _parse_legacy_msg(raw, 0, fields_out)
    if end != len(raw):
        raise CodecError("bytes after the message")
    magic, attrs = m["magic"], m["attrs"]
    codec = attrs & 7
    ts_type = None if magic == 0 else (1 if attrs & 8 else 0)
    if codec > LZ4:
        raise CodecError(f"legacy message with codec {codec}")
    if not codec:
        records = [Record(m["offset"], m["timestamp"], m["key"], m["value"], [], attrs, ts_type)]
    else:
        if m["value"] is None:
            raise CodecError("compressed wrapper with null value")
        inner = decompress(codec, m["value"], magic)
        msgs = _parse_message_set(inner)
        if not msgs:
            raise CodecError("compressed wrapper with an empty message set")
        for im in msgs:
            if im["magic"] != magic:
                raise CodecError("inner message magic differs from the wrapper's")
            if im["attrs"] & 7:
                raise CodecError("nested compression")
        abs_base = (m["offset"] - msgs[-1]["offset"]) if magic == 1 else -1
        records = []
        for im in msgs:
            off = im["offset"] + abs_base if abs_base >= 0 else im["offset"]
            ts = im["timestamp"]
            if ts_type == LOG_APPEND_TIME:
                ts = m["timestamp"]
            records.append(Record(off, ts, im["key"], im["value"], [], im["attrs"], ts_type))
    wts = m["timestamp"] if magic == 1 else -1
    return Batch(magic, records[0].offset, m["offset"], attrs, codec, ts_type, False, False, -1, -1, -1, wts, wts, -1,
                 len(records), records, bytes(raw), m["crc_ok"])


# ---------------------------------------------------------------- splitting / decoding
def iter_raw_batches(data):
    """Yield (magic, base_offset, raw) for every complete batch; stop at a trailing partial batch."""
    data = bytes(data)
    pos = 0
    n = len(data)
    while n - pos >= LOG_OVERHEAD:
        base, length = struct.unpack_from(">qi", data, pos)
        if length < 14:
            # a partial trailing batch always has a sane length field; anything else is corruption
            raise CodecError(f"batch at {pos}: length field {length} below the minimum message size")
        end = pos + LOG_OVERHEAD + length
        if end > n:
            return
        magic = struct.unpack_from(">b", data, pos + 16)[0]
        if magic not in (0, 1, 2):
            raise CodecError(f"batch at {pos}: unknown magic {magic}")
        yield magic, base, data[pos:end]
        pos = end


def decode_batch(raw, fields_out=None):
    raw = bytes(raw)
    if len(raw) < 17:
        raise CodecError("batch shorter than 17 bytes")
    magic = struct.unpack_from(">b", raw, 16)[0]
    if magic == 2:
        return _decode_v2(raw, fields_out)
    if magic in (0, 1):
        return _decode_legacy(raw, fields_out)
    raise CodecError(f"unknown magic {magic}")


def decode(data):
    return [decode_batch(raw) for _, _, raw in iter_raw_batches(data)]


def fields(raw):
    out = []
    decode_batch(raw, out)
    return out


def inner_fields(raw):
    """Fields of the *uncompressed inner payload* of a compressed batch (positions relative to inner_payload(raw))."""
    raw = bytes(raw)
    inner = inner_payload(raw)
    out = []
    if raw[16] == 2:
        (base, _, _, _, _, attrs, _, first_ts, max_ts, _, _, _, count) = _V2.unpack_from(raw, 0)
        _parse_v2_records(inner, count, base, first_ts, max_ts, 1 if attrs & 8 else 0, out, 0)
    else:
        _parse_message_set(inner, out)
    return out


def inner_payload(raw):
    """Uncompressed inner bytes of a compressed batch (v2: the records; v0/v1: the inner message set)."""
    raw = bytes(raw)
    magic = raw[16]
    if magic == 2:
        codec = struct.unpack_from(">h", raw, 21)[0] & 7
        return decompress(codec, raw[V2_HEADER:], 2)
    m, _ = _parse_legacy_msg(raw, 0)
    return decompress(m["attrs"] & 7, m["value"], magic)


def with_inner_payload(raw, payload):
    """Re-compress `payload` into the batch `raw`, fixing the length field(s) and the CRC."""
    raw = bytes(raw)
    magic = raw[16]
    if magic == 2:
        codec = struct.unpack_from(">h", raw, 21)[0] & 7
        tail = raw[21:V2_HEADER] + compress(codec, payload, 2)
        return raw[:8] + struct.pack(">i", 9 + len(tail)) + raw[12:17] + struct.pack(">I", crc32c(tail)) + tail
    m, _ = _parse_legacy_msg(raw, 0)
    return _encode_legacy_msg(magic, m["offset"], m["timestamp"], m["key"],
                              compress(m["attrs"] & 7, payload, magic), m["attrs"])


# ---------------------------------------------------------------- broker-side rebase
def _rebase_one(raw, base_offset, log_append_time):
    magic = raw[16]
    if magic == 2:
        out = bytearray(raw)
        struct.pack_into(">q", out, 0, base_offset)
        lod = struct.unpack_from(">i", out, 23)[0]
        if log_append_time is not None:
            attrs = struct.unpack_from(">h", out, 21)[0] | 8
            struct.pack_into(">h", out, 21, attrs)
            struct.pack_into(">q", out, 35, log_append_time)
            struct.pack_into(">I", out, 17, crc32c(bytes(out[21:])))
        return bytes(out), base_offset + lod + 1
    m, _ = _parse_legacy_msg(raw, 0)
    codec = m["attrs"] & 7
    attrs = m["attrs"]
    ts = m["timestamp"]
    if not codec:
        if magic == 1 and log_append_time is not None:
            attrs |= 8
            ts = log_append_time
        return _encode_legacy_msg(magic, base_offset, ts, m["key"], m["value"], attrs), base_offset + 1
    inner = _parse_message_set(decompress(codec, m["value"], magic))
    n = len(inner)
    new_inner = b"".join(
        _encode_legacy_msg(magic, (base_offset + i) if magic == 0 else i, im["timestamp"], im["key"], im["value"], im["attrs"])
        for i, im in enumerate(inner))
    if magic == 1:
        if log_append_time is not None:
            attrs |= 8
            ts = log_append_time
        else:
            ts = max(im["timestamp"] for im in inner)
    return (_encode_legacy_msg(magic, base_offset + n - 1, ts, m["key"], compress(codec, new_inner, magic), attrs),
            base_offset + n)


def rebase(raw_batch, base_offset, log_append_time=None):
    out = []
    nxt = base_offset
    for _, _, raw in iter_raw_batches(raw_batch):
        b, nxt = _rebase_one(raw, nxt, log_append_time)
        out.append(b)
    if sum(len(b) for b in out) == 0:
        raise CodecError("rebase: no complete batch")
    return b"".join(out)


# ---------------------------------------------------------------- structural validator
def validate(raw_batch, compacted=False):
    """Problems that make `raw_batch` (exactly one batch) not a well-formed Kafka batch.

    compacted=False additionally demands what holds for a freshly built batch: offset deltas 0..n-1,
    lastOffsetDelta = last record's delta, firstTimestamp = first record's timestamp."""
    raw = bytes(raw_batch)
    problems = []
    if len(raw) < 17:
        return [f"only {len(raw)} bytes"]
    base, length = struct.unpack_from(">qi", raw, 0)
    magic = struct.unpack_from(">b", raw, 16)[0]
    if length != len(raw) - LOG_OVERHEAD:
        problems.append(f"length field {length} != bytes - 12 = {len(raw) - LOG_OVERHEAD}")
        return problems
    if magic == 2:
        if len(raw) < V2_HEADER:
            return problems + [f"v2 batch of {len(raw)} bytes < 61"]
        (_, _, ple, _, crc, attrs, lod, first_ts, max_ts, pid, pepoch, bseq, count) = _V2.unpack_from(raw, 0)
        if crc != crc32c(raw[21:]):
            problems.append(f"crc field {crc:#x} != crc32c(attributes..end) {crc32c(raw[21:]):#x}")
        if attrs & ~0x3F:
            problems.append(f"unused attribute bits set: {attrs:#x}")
        if attrs & 7 > ZSTD:
            problems.append(f"unknown codec {attrs & 7}")
            return problems
        if count < 0:
            problems.append(f"recordCount {count}")
            return problems
        if lod < 0:
            problems.append(f"lastOffsetDelta {lod}")
        if pid < -1 or pepoch < -1 or bseq < -1:
            problems.append(f"producer fields out of range: id {pid} epoch {pepoch} sequence {bseq}")
        if ple < -1:
            problems.append(f"partitionLeaderEpoch {ple}")
        try:
            b = _decode_v2(raw)
        except CodecError as e:
            return problems + [str(e)]
        deltas = [r.offset - base for r in b.records]
        for i, r in enumerate(b.records):
            if r.attributes != 0:
                problems.append(f"record {i}: attributes {r.attributes}")
        if any(d < 0 for d in deltas) or any(b_ <= a for a, b_ in zip(deltas, deltas[1:])):
            problems.append(f"offset deltas not strictly increasing from >= 0: {deltas}")
        if deltas and deltas[-1] > lod:
            problems.append(f"lastOffsetDelta {lod} below the last record's delta {deltas[-1]}")
        ts_type = 1 if attrs & 8 else 0
        if b.records and ts_type == CREATE_TIME:
            want = max(r.timestamp for r in b.records)
            if max_ts != want and not compacted:
                problems.append(f"maxTimestamp {max_ts} != max record timestamp {want}")
            if compacted and max_ts < want:
                problems.append(f"maxTimestamp {max_ts} < max record timestamp {want}")
        if not compacted and b.records:
            if deltas != list(range(len(deltas))):
                problems.append(f"offset deltas {deltas} are not 0..n-1")
            if deltas[-1] != lod:
                problems.append(f"lastOffsetDelta {lod} != last record's delta {deltas[-1]}")
            ts0 = b.records[0].timestamp if ts_type == CREATE_TIME else None
            if ts0 is not None and ts0 != first_ts:
                problems.append(f"firstTimestamp {first_ts} != first record's timestamp {ts0}")
        if attrs & 0x20:
            for i, r in enumerate(b.records):
                if r.key is None or len(r.key) < 4:
                    problems.append(f"control record {i}: key shorter than version+type")
        return problems
    if magic in (0, 1):
        try:
            m, end = _parse_legacy_msg(raw, 0)
        except CodecError as e:
            return problems + [str(e)]
        if not m["crc_ok"]:
            problems.append(f"crc field {m['crc']:#x} != crc32(magic..end) {crc32(raw[16:]):#x}")
        allowed = 0x07 if magic == 0 else 0x0F
        if m["attrs"] & ~allowed:
            problems.append(f"unused attribute bits set: {m['attrs']:#x}")
        codec = m["attrs"] & 7
        if codec > LZ4:
            return problems + [f"unknown codec {codec}"]
        if codec:
            if m["value"] is None:
                return problems + ["compressed wrapper with null value"]
            try:
                inner = _parse_message_set(decompress(codec, m["value"], magic))
            except CodecError as e:
                return problems + [f"inner message set: {e}"]
            if not inner:
                problems.append("empty inner message set")
            for i, im in enumerate(inner):
                if im["magic"] != magic:
                    problems.append(f"inner message {i}: magic {im['magic']} != wrapper magic {magic}")
                if im["attrs"] & 7:
                    problems.append(f"inner message {i}: nested compression")
                if not im["crc_ok"]:
                    problems.append(f"inner message {i}: crc mismatch")
            offs = [im["offset"] for im in inner]
            if any(b_ <= a for a, b_ in zip(offs, offs[1:])):
                problems.append(f"inner offsets not increasing: {offs}")
            if magic == 1 and not compacted and offs != list(range(len(offs))):
                problems.append(f"v1 inner offsets {offs} are not relative 0..n-1")
        return problems
    return problems + [f"unknown magic {magic}"]


# ---------------------------------------------------------------- self-test against bytes captured from real brokers
def _selftest():
    """Literal batches from aiokafka's tests/record/test_records.py ("real live data from Kafka 10/11 broker"),
    the CRC pinned in tests/record/test_default_records.py, varint vectors from tests/record/test_util.py."""
    v2 = [
        b"\x00\x00\x00\x00\x00\x00\x00\x00\x00\x00\x00;\x00\x00\x00\x01\x02\x03"
        b"\x18\xa2p\x00\x00\x00\x00\x00\x00\x00\x00\x01]\xff{\x06<\x00\x00\x01]"
        b"\xff{\x06<\xff\xff\xff\xff\xff\xff\xff\xff\xff\xff\xff\xff\xff\xff\x00"
        b"\x00\x00\x01\x12\x00\x00\x00\x01\x06123\x00",
        b"\x00\x00\x00\x00\x00\x00\x00\x01\x00\x00\x00@\x00\x00\x00\x02\x02\xc8"
        b"\\\xbd#\x00\x00\x00\x00\x00\x01\x00\x00\x01]\xff|\xddl\x00\x00\x01]\xff"
        b"|\xde\x14\xff\xff\xff\xff\xff\xff\xff\xff\xff\xff\xff\xff\xff\xff\x00"
        b"\x00\x00\x02\x0c\x00\x00\x00\x01\x00\x00\x0e\x00\xd0\x02\x02\x01\x00"
        b"\x00",
        b"\x00\x00\x00\x00\x00\x00\x00\x03\x00\x00\x00;\x00\x00\x00\x02\x02.\x0b"
        b"\x85\xb7\x00\x00\x00\x00\x00\x00\x00\x00\x01]\xff|\xe7\x9d\x00\x00\x01]"
        b"\xff|\xe7\x9d\xff\xff\xff\xff\xff\xff\xff\xff\xff\xff\xff\xff\xff\xff"
        b"\x00\x00\x00\x01\x12\x00\x00\x00\x01\x06123\x00",
    ]
    v1 = [
        b"\x00\x00\x00\x00\x00\x00\x00\x00\x00\x00\x00\x19G\x86(\xc2\x01\x00\x00"
        b"\x00\x01^\x18g\xab\xae\xff\xff\xff\xff\x00\x00\x00\x03123",
        b"\x00\x00\x00\x00\x00\x00\x00\x01\x00\x00\x00\x16\xef\x98\xc9 \x01\x00"
        b"\x00\x00\x01^\x18g\xaf\xc0\xff\xff\xff\xff\x00\x00\x00\x00",
    ]
    v0 = [
        b"\x00\x00\x00\x00\x00\x00\x00\x00\x00\x00\x00\x11\xfe\xb0\x1d\xbf\x00"
        b"\x00\xff\xff\xff\xff\x00\x00\x00\x03123",
        b"\x00\x00\x00\x00\x00\x00\x00\x01\x00\x00\x00\x0eyWH\xe0\x00\x00\xff"
        b"\xff\xff\xff\x00\x00\x00\x00",
    ]
    assert crc32c(b"123456789") == 0xE3069283
    assert xxh32(b"") == 0x02CC5D05 and xxh32(b"Nobody inspects the spammish repetition") == 0xE2293B2F
    bs = decode(b"".join(v2) + b"\x00" * 4)
    assert [b.crc_ok for b in bs] == [True] * 3 and [b.record_count for b in bs] == [1, 2, 1]
    assert bs[0].records[0] == Record(0, 1503229838908, None, b"123", [], 0, 0)
    assert [r.offset for r in bs[1].records] == [1, 2] and bs[1].records[1].timestamp == 0x015DFF7CDE14 == bs[1].max_timestamp
    assert all(validate(x) == [] for x in v2), [validate(x) for x in v2]
    # re-encoding the decoded content reproduces the broker's bytes exactly
    for x, b in zip(v2, bs):
        again = encode_v2([(r.offset - b.base_offset, r.timestamp, r.key, r.value, r.headers) for r in b.records],
                          base_offset=b.base_offset, partition_leader_epoch=b.partition_leader_epoch)
        assert again == x, (again.hex(), x.hex())
    b1 = decode(b"".join(v1))
    assert b1[0].records[0] == Record(0, 1503648000942, None, b"123", [], 0, 0) and b1[0].crc_ok
    assert encode_legacy(1, [(1503648000942, None, b"123"), (1503648001984, None, b"")]) == b"".join(v1)
    b0 = decode(b"".join(v0))
    assert b0[0].records[0] == Record(0, None, None, b"123", [], 0, None) and b0[1].crc_ok
    assert encode_legacy(0, [(None, None, b"123"), (None, None, b"")]) == b"".join(v0)
    assert all(validate(x) == [] for x in v1 + v0)
    # CRC pinned by test_read_write_serde_v2 for the uncompressed batch
    hdrs = [("header1", b"aaa"), ("header2", b"bbb")]
    raw = encode_v2([(9999999 + i, b"test", b"Super", hdrs) for i in range(10)], transactional=True,
                    producer_id=123456, producer_epoch=123, base_sequence=9999)
    assert struct.unpack_from(">I", raw, 17)[0] == 3950153926
    raw = encode_v2([(9999999 + i, b"test", b"Super", hdrs) for i in range(10)], transactional=True,
                    producer_id=123456, producer_epoch=123, base_sequence=9999, compression=SNAPPY)
    assert struct.unpack_from(">I", raw, 17)[0] == 2171068483  # pinned for snappy (xerial framing)
    for enc, val in ((b"\x00", 0), (b"\x01", -1), (b"\x7f", -64), (b"\x80\x01", 64), (b"\xfe\x7f", 8191),
                     (b"\x80\x80\x01", 8192), (b"\x81\x80\x80\x80\x80\x80\x80\x80\x80\x01", -4611686018427387905)):
        assert encode_varint(val) == enc and decode_varint(enc, 0) == (val, len(enc))
    assert decode_varint(encode_varint(2**63 - 1)) == (2**63 - 1, 10) and decode_varint(encode_varint(-2**63)) == (-2**63, 10)
    # containers
    blob = bytes(range(256)) * 300
    for codec in (GZIP, SNAPPY, LZ4, ZSTD):
        assert decompress(codec, compress(codec, blob)) == blob
    assert bytes(cramjam.lz4.decompress(lz4_frame_encode(blob))) == blob  # a stock LZ4 frame reader accepts ours
    c = cramjam.lz4.Compressor(level=9, content_checksum=False, block_linked=False)
    c.compress(blob)
    assert lz4_frame_decode(bytes(c.finish())) == blob  # and we read a stock writer's frame
    assert lz4_frame_decode(lz4_frame_encode(blob, broken_header_checksum=True), ignore_header_checksum=True) == blob
    # rebase / compaction shapes / control
    w = encode_legacy(1, [(5, b"k", b"v"), (7, None, None), (6, b"", b"")], compression=GZIP)
    r = decode(rebase(w, 100))[0]
    assert [x.offset for x in r.records] == [100, 101, 102] and r.last_offset == 102 and r.first_timestamp == 7
    r = decode(rebase(w, 100, log_append_time=42))[0]
    assert [x.timestamp for x in r.records] == [42, 42, 42] and r.timestamp_type == 1 and r.crc_ok
    w0 = encode_legacy(0, [(None, b"k", b"v"), (None, None, None)], compression=SNAPPY)
    r = decode(rebase(w0, 7))[0]
    assert [x.offset for x in r.records] == [7, 8] and r.last_offset == 8 and validate(r.raw) == []
    p = encode_v2([(10, b"a", b"b", []), (12, None, None, [("h", None)])], compression=ZSTD)
    r = decode(rebase(p, 50, log_append_time=99))[0]
    assert r.crc_ok and [x.offset for x in r.records] == [50, 51] and [x.timestamp for x in r.records] == [99, 99]
    g = encode_v2([(1, 5, b"a", None, []), (4, 6, b"b", b"", [])], base_offset=20, last_offset_delta=7, first_timestamp=3)
    r = decode(g)[0]
    assert [x.offset for x in r.records] == [21, 24] and r.next_offset == 28 and validate(g, compacted=True) == []
    assert validate(g) != []
    e = encode_v2([], base_offset=9, last_offset_delta=3, first_timestamp=1, max_timestamp=2)
    assert decode(e)[0].records == [] and decode(e)[0].next_offset == 13 and validate(e) == []
    cb = decode(control_batch(77, 5, 1, True, 1234))[0]
    assert cb.is_control and cb.is_transactional and cb.records[0].key == b"\x00\x00\x00\x01" and validate(cb.raw) == []
    mixed = v0[0] + v2[0] + v1[0]
    assert [m for m, _, _ in iter_raw_batches(mixed + v2[1][:30])] == [0, 2, 1]
    assert len(fields(v2[1])) == 13 + 2 * 7
    z = encode_v2([(1, b"k", b"v", [])], compression=GZIP)
    assert decode(with_inner_payload(z, inner_payload(z)))[0].records == decode(z)[0].records
    return "krecords self-test ok"


if __name__ == "__main__":
    print(_selftest())
