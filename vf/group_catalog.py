"""Scenario catalogue shared by the group-consumer properties (C04, C05, C06)."""
from vf import explore, scen_group

# error codes a real coordinator can answer transiently, per API
TRANSIENT = {
    "FindCoordinator": [15],
    "JoinGroup": [14, 15, 16],
    # a loading coordinator answers Heartbeat with NONE and SyncGroup with REBALANCE_IN_PROGRESS (Kafka GroupCoordinator), never 14
    "SyncGroup": [15, 16, 27],
    "Heartbeat": [15, 16, 27],
    "OffsetCommit": [14, 15, 16, 27, 7],
    # OffsetFetch: coordinator failover shows as NOT_COORDINATOR / LOAD_IN_PROGRESS; other codes on the committed-offset lookup
    # belong to C13's quantifier, not to C04-C06's
    "OffsetFetch": [14, 16],
    "LeaveGroup": [15, 16],
}
# membership errors (in a real cluster they come with coordinator state; placed on single replies only where the
# property's quantifier asks for "every coordinator error code at any reply")
MEMBERSHIP = {
    "JoinGroup": [25],
    "SyncGroup": [25, 22],
    "Heartbeat": [25, 22],
    "OffsetCommit": [25, 22],
}


def errs(membership=False):
    out = {k: list(v) for k, v in TRANSIENT.items()}
    if membership:
        for k, v in MEMBERSHIP.items():
            out[k] = out.get(k, []) + v
    return out


def two_members(**kw):
    """Two members on one topic with two partitions; the second joins one virtual second later; records keep arriving."""
    p = dict(topics={"t": 2}, records=2, feed=[0.3, 6], poll_max_records=1,
             members=[dict(topics=["t"], assignors=["range"]), dict(topics=["t"], assignors=["range"], start=1.0)],
             explore_until=2.6, errs=errs(), kill=True, coord_move=True)
    p.update(kw)
    return p


def run_catalog(ctx, prop, checks, scenarios):
    only = getattr(ctx, "only", None)
    scs = [s for s in scenarios if not only or only in s[0]]
    jobs = []
    for name, params, bounds in scs:
        params = dict(params)
        params["checks"] = list(checks)
        jobs.append((name, scen_group.make, params, bounds))
    ctx.bounds = {"budget_vectors": {name: b for name, _, _, b in jobs}}
    counts = explore.explore_many(ctx, jobs)
    ctx.note("executions_per_scenario", counts)
    ctx.sample({"scenario": jobs[0][0], "params": jobs[0][2]})
    if len(ctx.sets.get("outcomes", ())) < 2:
        ctx.violation("vacuity", {"what": "single-outcome"}, {}, "exploration produced a single outcome: nothing collided")


def replay(data):
    res, same = explore.replay_execution(scen_group.make, data)
    if not same:
        print("REPLAY NOT DETERMINISTIC")
        return 2
    return 1 if res.violations else 0
