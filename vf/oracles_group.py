"""Oracles over a finished GroupScenario run (C04, C05, C06).  They read only the harness-visible history
(scn.ev: deliveries, listener callbacks, probes, requests at the instant they were written, replies at the instant they
were delivered) and the simulated coordinator's own records.  Each demand is a clause of the property statement."""
from vf.scen_group import decode_assignment, decode_subscription

ASSIGNOR_NAMES = {"range": "range", "roundrobin": "roundrobin", "sticky": "sticky"}


def _by_member(scn):
    per = {}
    for e in scn.ev:
        if e[3] is not None:
            per.setdefault(e[3], []).append(e)
    return per


def _log_offsets(scn, tp):
    part = scn.cluster.partition(*tp)
    return [r.offset for st in part.log for r in st.batch.records if not st.batch.is_control] if part else []


# ------------------------------------------------------------------------------------------------------------ C04
def check_c04(scn):
    per = _by_member(scn)
    # (a) every OffsetCommit written: all visible records in [stint start, o) were handed to that member before
    for i, evs in per.items():
        given = {}  # tp -> committed offset the member was last given (OffsetFetch reply)
        delivered = {}  # tp -> set of offsets handed to the application so far
        for e in evs:
            kind = e[2]
            if kind == "gr" and e[4] == "OffsetFetch":
                for tp, off, err in e[5]:
                    if err == 0:
                        given[tp] = off
            elif kind == "deliver":
                delivered.setdefault(e[4], set()).add(e[5])
            elif kind == "commit-w":
                for tp, o in e[6]:
                    start = given.get(tp, -1)
                    if start < 0:
                        start = 0  # auto_offset_reset=earliest, log start 0
                    need = [x for x in _log_offsets(scn, tp) if start <= x < o]
                    missing = [x for x in need if x not in delivered.get(tp, ())]
                    if missing:
                        scn.fail("commit-ahead", {"what": "commit-passes-undelivered"},
                                 f"member c{i} wrote OffsetCommit {tp}={o} (generation {e[4]}) at t={e[1]} but offsets {missing} from its "
                                 f"start position {start} were never handed to its application")
                    end = scn.cluster.partition(*tp).end
                    if o > end:
                        scn.fail("commit-ahead", {"what": "commit-beyond-log-end"}, f"member c{i} committed {tp}={o} beyond log end {end}")
    # (b) at-least-once, group-wide, once the environment is quiet
    snap = scn.snap2
    live = snap["live"] if snap else {}
    if live:
        subscribed = set()
        for i, s in live.items():
            subscribed.update(s["subscription"])
        got = {}
        for e in scn.ev:
            if e[2] == "deliver":
                got.setdefault(e[4], set()).add(e[5])
        for tname in sorted(subscribed):
            t = scn.cluster.topics.get(tname)
            if t is None:
                continue
            for part in t.partitions:
                tp = (tname, part.index)
                missing = [x for x in _log_offsets(scn, tp) if x not in got.get(tp, ())]
                if missing:
                    scn.fail("at-least-once", {"what": "record-never-delivered"},
                             f"{tp}: offsets {missing} were never delivered to any member although members {sorted(live)} stayed live "
                             f"until t={snap['t']} (kills {sorted(scn.killed)})")
    # (c) a record delivered again lies at or above the committed offset its (new) owner was given
    #     "given" = what the group had committed when the member adopted the assignment under which it delivers (ground truth
    #     of the simulated coordinator at that instant; the member is expected to ask for it), or a later OffsetFetch reply
    first = {}
    given = {}
    for e in scn.ev:
        kind = e[2]
        if kind == "adopt":
            for tp in e[4]:
                given[(e[3], tp)] = dict(e[5]).get(tp, -1)
        elif kind == "gr" and e[4] == "OffsetFetch":
            for tp, off, err in e[5]:
                if err == 0:
                    given[(e[3], tp)] = max(off, given.get((e[3], tp), -1))
        elif kind == "deliver":
            key = (e[4], e[5])
            if key in first:
                g = given.get((e[3], e[4]), -1)
                if g >= 0 and e[5] < g:
                    scn.fail("redelivery", {"what": "redelivered-below-committed"},
                             f"{e[4]}@{e[5]} delivered again to c{e[3]} at t={e[1]} although the group's committed offset was {g} when "
                             f"it took the partition over (first delivery to c{first[key]})")
            else:
                first[key] = e[3]


# ------------------------------------------------------------------------------------------------------------ C05
def check_c05(scn):
    g = scn.cluster.groups.get("g")
    per = _by_member(scn)
    # 1a. what the leader distributed per generation: pairwise disjoint, inside each member's subscription
    if g is not None:
        for h in g.history:
            if h["assignments"] is None:
                continue
            owner = {}
            for mid, data in sorted(h["assignments"].items()):
                tps = decode_assignment(data)
                subs = set(decode_subscription(h["members"][mid])) if mid in h["members"] else set()
                for tp in sorted(tps):
                    if tp in owner:
                        scn.fail("ownership", {"what": "partition-assigned-twice"},
                                 f"generation {h['generation']}: {tp} assigned to both {owner[tp]} and {mid}")
                    owner[tp] = mid
                    if tp[0] not in subs:
                        scn.fail("ownership", {"what": "assigned-outside-subscription"},
                                 f"generation {h['generation']}: {tp} assigned to {mid} which subscribed only {sorted(subs)}")
    # 1b. what each member adopts / reports equals what it was sent
    for i, evs in per.items():
        sent = None
        for e in evs:
            kind = e[2]
            if kind == "gr" and e[4] == "SyncGroup" and e[5][0] == 0:
                sent = e[5][1]
            elif kind == "subscribe":
                sent = None  # the application replaced the subscription: assignment() legitimately no longer shows what was sent
            elif kind == "adopt":
                if sent is None:
                    continue
                if set(e[4]) != set(sent):
                    scn.fail("adoption", {"what": "adopted-differs-from-sent"},
                             f"member c{i} adopted {sorted(e[4])} at t={e[1]} but its last SyncGroup reply carried {sorted(sent) if sent is not None else None}")
            elif kind == "assign-begin":
                if sent is not None and (set(e[4]) != set(sent) or set(e[5]) != set(sent)):
                    scn.fail("adoption", {"what": "assignment()-differs-from-sent"},
                             f"member c{i} on_partitions_assigned({sorted(e[4])}) with assignment()={sorted(e[5])} at t={e[1]}, "
                             f"SyncGroup reply carried {sorted(sent)}")
    # 2. silence of revoked partitions
    for i, evs in per.items():
        silent = {}  # tp -> tick of the revoke-begin that silenced it
        for e in evs:
            kind = e[2]
            if kind == "revoke-begin":
                for tp in e[4]:
                    silent[tp] = e[1]
            elif kind == "assign-begin":
                for tp in e[4]:
                    silent.pop(tp, None)
            elif kind == "deliver" and e[4] in silent:
                scn.fail("revoked-silence", {"what": "delivered-after-revoke"},
                         f"member c{i} returned {e[4]}@{e[5]} at t={e[1]} after on_partitions_revoked began at t={silent[e[4]]} and before a "
                         f"later on_partitions_assigned included it")
    # 2b. a member that itself wrote LeaveGroup (max_poll_interval exceeded) has given its partitions up: it knows its
    # assignment is superseded, so it returns nothing until a later on_partitions_assigned
    for i, evs in per.items():
        left_at = None
        stopping = False
        for e in evs:
            kind = e[2]
            if kind == "stop-begin":
                stopping = True
            elif kind == "gr" and e[4] == "LeaveGroup" and not stopping and e[5] and e[5][0] == 0:
                left_at = e[1]  # from the instant the member has been told that it left (a lost reply leaves it in limbo)
            elif kind == "assign-begin":
                left_at = None
            elif kind == "deliver" and left_at is not None:
                scn.fail("revoked-silence", {"what": "delivered-after-leaving-group"},
                         f"member c{i} returned {e[4]}@{e[5]} at t={e[1]} after its LeaveGroup was acknowledged at t={left_at} and before a later "
                         f"on_partitions_assigned")
    # 3. nothing fetched under a superseded assignment / subscription is delivered
    for i, evs in per.items():
        adopt_tick = 0
        fetched = {}  # (tp, offset) -> latest write-tick of a fetch request whose response (delivered to i) contained it
        for e in evs:
            kind = e[2]
            if kind == "adopt":
                adopt_tick = e[0]
            elif kind == "fetch-r":
                t_w = e[4]
                for tp, (err, offs) in e[5]:
                    for o in offs:
                        if t_w is not None and t_w > fetched.get((tp, o), -1):
                            fetched[(tp, o)] = t_w
            elif kind == "deliver":
                t_w = fetched.get((e[4], e[5]))
                if t_w is None:
                    scn.fail("stale-data", {"what": "delivered-never-fetched"},
                             f"member c{i} returned {e[4]}@{e[5]} at t={e[1]} which no Fetch response delivered to it contained")
                elif t_w < adopt_tick:
                    scn.fail("stale-data", {"what": "delivered-from-superseded-assignment"},
                             f"member c{i} returned {e[4]}@{e[5]} at t={e[1]}; the only Fetch responses containing it were requested before "
                             f"the member adopted its current assignment")
    # 4. group-wide callback order per generation
    joins = {}  # generation -> {member index: (join reply tick, member id)}
    for i, evs in per.items():
        for e in evs:
            if e[2] == "gr" and e[4] == "JoinGroup" and e[5][0] == 0:
                # the rebalance that produced generation G is the first successful join into G; a known follower that
                # rejoins a stable group is answered with the current generation again - that is not a rebalance
                joins.setdefault(e[5][1], {}).setdefault(i, e[0])
    for gen, members in sorted(joins.items()):
        rev_end = {}
        asg_begin = {}
        for i, jt in members.items():
            evs = per[i]
            prev = [e for e in evs if e[0] < jt and e[2] in ("revoke-end", "revoke-begin")]
            if prev:
                last = prev[-1]
                rev_end[i] = (last[0], last[2], last[1])
            nxt_join = min([e[0] for e in evs if e[0] > jt and e[2] == "gr" and e[4] == "JoinGroup" and e[5][0] == 0], default=10**12)
            ab = [e for e in evs if jt < e[0] < nxt_join and e[2] == "assign-begin"]
            if ab:
                asg_begin[i] = (ab[0][0], ab[0][1])
        for i, (rt, rkind, rtime) in rev_end.items():
            for j, (at, atime) in asg_begin.items():
                if rkind == "revoke-begin" or rt > at:
                    scn.fail("callback-order", {"what": "assign-before-revoke-finished"},
                             f"generation {gen}: member c{j} began on_partitions_assigned at t={atime} before member c{i} finished "
                             f"on_partitions_revoked (last revoke event {rkind} at t={rtime})")


# ------------------------------------------------------------------------------------------------------------ C06
def check_c06(scn):
    p = scn.p
    per = _by_member(scn)
    # 2. every JoinGroup advertises all configured strategies in preference order
    for i, evs in per.items():
        want = tuple(p["members"][i].get("assignors", ["range"]))
        for e in evs:
            if e[2] == "gw" and e[4] == "JoinGroup":
                have = e[5][1]
                if tuple(have) != want:
                    scn.fail("join-strategies", {"what": "joingroup-strategies", "configured": len(want), "advertised": len(have)},
                             f"member c{i} wrote JoinGroup advertising {list(have)} at t={e[1]}; configured strategies are {list(want)}")
    # 3. a successful JoinGroup reply is followed by that member's SyncGroup for that generation and identity
    for i, evs in per.items():
        pending = None  # (generation, member id, tick, time)
        for e in evs:
            kind = e[2]
            if kind == "gr" and e[4] == "JoinGroup":
                pending = (e[5][1], e[5][2], e[0], e[1]) if e[5][0] == 0 else None
            elif kind == "gr" and e[5] and isinstance(e[5], tuple) and e[4] != "JoinGroup":
                # an error reply on any group request is a fault that may legitimately restart the join
                code = e[5][0] if e[4] in ("SyncGroup", "Heartbeat", "FindCoordinator", "LeaveGroup") else None
                if code:
                    pending = None
            elif kind in ("conn-closed", "subscribe", "stop-begin", "killed"):
                pending = None
            elif kind == "gw" and pending is not None and e[4] in ("JoinGroup", "SyncGroup"):
                gen, mid, jt, jtime = pending
                if e[4] == "JoinGroup":
                    scn.fail("join-then-sync", {"what": "join-after-successful-join"},
                             f"member c{i} got a successful JoinGroup reply (generation {gen}, member {mid}) at t={jtime} and then wrote "
                             f"another JoinGroup at t={e[1]} with no fault or subscription change in between")
                elif (e[5][0], e[5][1]) != (mid, gen):
                    scn.fail("join-then-sync", {"what": "sync-with-other-identity"},
                             f"member c{i}: JoinGroup reply assigned (member {mid}, generation {gen}) but SyncGroup carried {e[5]}")
                pending = None
    _convergence(scn)


def _convergence(scn):
    s1, s2 = scn.snap1, scn.snap2
    if s1 is None or s2 is None:
        return
    live = s1["live"]
    if not live:
        return
    g = scn.cluster.groups.get("g")
    gen = s1["generation"]
    for i, st in sorted(live.items()):
        if st["generation"] != gen or st["member_id"] not in s1["members"]:
            scn.fail("convergence", {"what": "member-not-in-latest-generation"},
                     f"at t={s1['t']} (quiet since t={scn.world.last_dev_t}) member c{i} is at generation {st['generation']} as "
                     f"{st['member_id']!r}; the group is at generation {gen} ({s1['state']}) with members {s1['members']}")
            return
    if s1["state"] != "Stable":
        scn.fail("convergence", {"what": "group-not-stable"}, f"at t={s1['t']} the group is {s1['state']} (generation {gen})")
        return
    # every partition of every subscribed topic that some live member has heard of (a partition no member's metadata
    # shows yet cannot be covered; the periodic refresh that reveals it is part of the environment, not of the quiet tail)
    # The group leader is the member that computes assignments and watches the group's topics: what has to be covered are
    # the partitions of the live members' subscribed topics that the leader's metadata shows.
    want = set()
    leader = [st for st in live.values() if st["member_id"] == s1.get("leader")]
    subscribed = {tname for st in live.values() for tname in st["subscription"]}
    for tname, pi in (leader[0]["known"] if leader else ()):
        t = scn.cluster.topics.get(tname)
        if tname in subscribed and t is not None and pi < len(t.partitions):
            want.add((tname, pi))
    # ... plus the partitions of a topic the leader has no metadata for at all although a live member subscribes to it and
    # knows it: fetching metadata for every topic of the group is the leader's job (a stale partition *count* is not)
    leader_topics = {tname for tname, _ in leader[0]["known"]} if leader else set()
    for st in live.values():
        for tname, pi in st["known"]:
            t = scn.cluster.topics.get(tname)
            if leader and tname in st["subscription"] and tname not in leader_topics and t is not None and pi < len(t.partitions):
                want.add((tname, pi))
    have = {}
    for i, st in live.items():
        for tp in st["assignment"]:
            if tp in have:
                scn.fail("convergence", {"what": "two-owners-after-convergence"}, f"at t={s1['t']} {tp} is owned by c{have[tp]} and c{i}")
            have[tp] = i
    if leader and set(have) != want:
        scn.fail("convergence", {"what": "coverage"},
                 f"at t={s1['t']} live members {sorted(live)} own {sorted(have)}; partitions of their subscribed topics are {sorted(want)}")
    if s2["generation"] != gen:
        scn.fail("convergence", {"what": "rebalance-after-convergence"},
                 f"generation moved {gen} -> {s2['generation']} between t={s1['t']} and t={s2['t']} with a quiet environment")
    for i in sorted(live):
        hb = [e for e in scn.ev if e[2] == "gw" and e[3] == i and e[4] == "Heartbeat" and s1["tick"] < e[0] <= s2["tick"]]
        if not hb:
            scn.fail("convergence", {"what": "heartbeats-stopped"}, f"member c{i} wrote no Heartbeat between t={s1['t']} and t={s2['t']}")


# ------------------------------------------------------------------------------------------------------------ C19
def check_c19(scn):
    """stop() returns within a bound fixed by the configured timeouts; afterwards nothing the client created is alive,
    later calls raise ConsumerStoppedError, and a member whose coordinator was reachable has left the group."""
    import gc

    from vf.scen_group import REBALANCE, SESSION

    p = scn.p
    # last commit, LeaveGroup and connection teardown may each take one request timeout when brokers are silent
    # (in-flight request, last commit, LeaveGroup, connection teardown: up to four request timeouts)
    bound = 4 * p.get("request_timeout_ms", 4000) / 1000.0 + max(SESSION, REBALANCE) + 1.0
    loop = scn.world.loop
    hung = set(getattr(scn, "hung", ()))
    for i, dur in sorted(scn.stopped.items()):
        ctx = scn.stop_ctx.get(i, {})
        mode = getattr(scn, "_mode", None)
        sig_mode = mode[0] if mode else "healthy"
        if dur is None:
            scn.fail("stop-terminates", {"what": "stop-never-returned", "cluster": sig_mode, "joined": (ctx.get("generation") or 0) > 0},
                     f"member c{i}: stop() called at t={ctx.get('t0')} had not returned {p.get('stop_bound', 30.0)} virtual seconds later "
                     f"(cluster mode {mode}, generation {ctx.get('generation')}, group {ctx.get('group_state')})")
            continue
        if dur > bound:
            scn.fail("stop-terminates", {"what": "stop-exceeds-bound", "cluster": sig_mode},
                     f"member c{i}: stop() took {dur:.3f}s of virtual time; bound from the configured timeouts is {bound:.1f}s (cluster mode {mode})")
        if i in hung:
            # stop() returned, yet the application's own call that was pending when stop() ran (getone()/getmany()) has neither
            # returned nor raised by the end of the run
            scn.fail("stop-api", {"what": "call-pending-after-stop"},
                     f"member c{i}: stop() returned after {dur:.3f}s but the application call that was pending when it was issued is still "
                     f"blocked {p.get('stop_bound', 30.0)} virtual seconds later")
            continue
        left = [x for x in loop.live_things(f"c{i}")]
        if left:
            kinds = sorted({k for k, _ in left})
            scn.fail("stop-leftovers", {"what": "alive-after-stop", "kinds": ",".join(kinds)},
                     f"member c{i}: after stop() returned these things created by the client are still alive: {left[:4]}")
        g = scn.cluster.groups.get("g")
        moved = getattr(scn, "_moved", False)  # a failover around the stop: whether the member can reach the new coordinator depends on rediscovery
        # no fault at all, neither before stop() (f_spent) nor while it ran: a connection reset during the final commit makes the
        # client take the coordinator for dead, and it is not asked to rediscover it just to say goodbye
        no_fault = ctx.get("f_spent") == 0 and scn.world.chooser.spent["f"] == 0
        if (ctx.get("generation") or 0) > 0 and ctx.get("coordinator_up") and no_fault and not mode and not moved and g is not None:
            mid = ctx.get("member_id")
            end_tick = max((e[0] for e in scn.ev if e[2] == "stop-end" and e[3] == i), default=None)
            wrote_leave = any(e[2] == "gw" and e[3] == i and e[4] == "LeaveGroup" for e in scn.ev)
            if not wrote_leave and mid in g.members:
                scn.fail("stop-leaves-group", {"what": "no-leavegroup"},
                         f"member c{i} ({mid}, generation {ctx.get('generation')}) stopped while its coordinator was reachable but wrote no "
                         f"LeaveGroup; the coordinator still lists it (stop ended at tick {end_tick})")
    for e in scn.ev:
        if e[2] == "stop-exc":
            scn.fail("stop-terminates", {"what": "stop-raised", "type": e[4]},
                     f"member c{e[3]}: stop() raised {e[4]}({e[5]}) to its caller at t={e[1]}")
        if e[2] == "after-stop" and e[5] != "ConsumerStoppedError":
            scn.fail("stop-api", {"what": "call-after-stop", "call": e[4], "outcome": e[5]},
                     f"member c{e[3]}: {e[4]}() after stop() {e[5]} instead of raising ConsumerStoppedError")
    gc.collect()
    for ctx in loop.exc_log:
        msg = ctx.get("message", "")
        if "never retrieved" in msg or "Unclosed" in msg or "was destroyed" in msg:
            exc = ctx.get("exception")
            scn.fail("stop-leftovers", {"what": "loop-report", "message": msg[:40], "type": type(exc).__name__ if exc else "none"},
                     f"event loop reported after stop: {msg} {exc!r}")
