"""Group scenarios (C04, C05, C06; reused by C19): real group AIOKafkaConsumers against the simulated coordinator.

params (JSON-able):
  topics: {name: partitions}          records: records pre-loaded per partition
  members: [{topics|pattern, assignors:[names], start: virtual seconds, stop: seconds|None, commit_task: bool,
             resubscribe: [at_seconds, [topics]] | None}]
  join_max: cap of the broker's JoinGroup version range       hb_completing: 0 | 27
  baseline: "net" | "app"   explore_until: virtual seconds during which deviations may be placed
  faults / errs / fault_apis: per-request fault alphabet (Cluster.fault_alts)
  coord_move: bool (state fault: coordinator moves, with or without membership state)
  kill: bool (k budget: process death of any member at any choice point)
  stretch: bool (listener callbacks await a gate, so they can be stretched across other members' progress)
  new_topic_at / grow_at: [seconds, topic, partitions] metadata changes scheduled by the environment

Phases: exploration is allowed until `explore_until`; then the environment is canonical (frozen); at
max(explore_until, last deviation) + H_CONV the convergence snapshot is taken, after a further STABLE the second;
then every live member stops.
"""
import asyncio
import re
import struct

from vf import krecords, kwire
from vf.explore import Alt
from vf.runner import h64
from vf.simkafka import Cluster

SESSION = 2.0
HEARTBEAT = 0.5
REBALANCE = 2.0
H_CONV = REBALANCE + 2 * SESSION + 1.0
STABLE = 2 * SESSION
GROUP_APIS = ("JoinGroup", "SyncGroup", "Heartbeat", "LeaveGroup", "OffsetCommit", "OffsetFetch", "FindCoordinator")


def decode_assignment(data):
    """ConsumerProtocol member assignment: version, [(topic, [partitions])], user data."""
    if not data:
        return set()
    pos = 2
    (n,) = struct.unpack_from(">i", data, pos)
    pos += 4
    out = set()
    for _ in range(n):
        (ln,) = struct.unpack_from(">h", data, pos)
        pos += 2
        topic = data[pos:pos + ln].decode()
        pos += ln
        (m,) = struct.unpack_from(">i", data, pos)
        pos += 4
        for _ in range(m):
            (p,) = struct.unpack_from(">i", data, pos)
            pos += 4
            out.add((topic, p))
    return out


def decode_subscription(data):
    """ConsumerProtocol member metadata: version, [topics], user data."""
    pos = 2
    (n,) = struct.unpack_from(">i", data, pos)
    pos += 4
    out = []
    for _ in range(n):
        (ln,) = struct.unpack_from(">h", data, pos)
        pos += 2
        out.append(data[pos:pos + ln].decode())
        pos += ln
    return out


_PROBED = False
_CURRENT = None  # the scenario whose consumers are being probed (one execution at a time per process)


def _install_probes():
    """Observation-only wrappers (no behaviour change): stamp the instant a member adopts an assignment or begins a
    reassignment, which is invisible from outside the process."""
    global _PROBED
    if _PROBED:
        return
    _PROBED = True
    from aiokafka.consumer.subscription_state import SubscriptionState

    orig_assign = SubscriptionState.assign_from_subscribed
    orig_begin = SubscriptionState.begin_reassignment

    def assign_from_subscribed(self, assignment):
        r = orig_assign(self, assignment)
        scn = _CURRENT
        if scn is not None:
            scn.probe(self, "adopt", frozenset((tp.topic, tp.partition) for tp in assignment))
        return r

    def begin_reassignment(self):
        r = orig_begin(self)
        scn = _CURRENT
        if scn is not None:
            scn.probe(self, "begin-reassign", None)
        return r

    SubscriptionState.assign_from_subscribed = assign_from_subscribed
    SubscriptionState.begin_reassignment = begin_reassignment


class GroupScenario:
    name = "group"

    def __init__(self, params):
        self.p = dict(params)
        self.violations = []
        self.world = None
        self.tick = 0
        self.ev = []  # (tick, t, kind, member, ...)  harness-visible history in time order
        self.consumers = {}
        self.sub_index = {}
        self.alive = {}
        self.killed = set()
        self.stopped = {}
        self.inflight = {}  # (conn label, corr) -> (api key, version, tick written, owner)
        self.fetch_req = {}  # (conn label, corr) -> (tick written, {(topic, partition): fetch offset})
        self.snap1 = self.snap2 = None
        self.stop_flag = False
        self.stop_tasks = {}  # member -> task running a stop() placed by the explorer (C19)
        self.stop_ctx = {}
        self.started = set()

    def fail(self, oracle, sig, msg):
        self.violations.append((oracle, sig, msg))

    def rec(self, kind, member, *a):
        self.tick += 1
        e = (self.tick, self.world.now(), kind, member) + a
        self.ev.append(e)
        if self.world.events is not None:
            self.world.events.append((self.world.now(), "H", kind, member) + tuple(repr(x)[:160] for x in a))
        return self.tick

    def probe(self, sub, kind, data):
        i = self.sub_index.get(id(sub))
        if i is not None:
            if kind == "adopt":
                # ground truth at the instant of adoption: what the group has committed so far
                g = self.cluster.groups.get("g")
                truth = {tp: off for tp, (off, _) in g.offsets.items()} if g else {}
                self.rec(kind, i, data, tuple(sorted(truth.items())))
            else:
                self.rec(kind, i, data)

    # ---------------------------------------------------------------------------------------------------------
    def setup(self, world):
        global _CURRENT
        p = self.p
        _install_probes()
        _CURRENT = self
        topics = {name: {"partitions": n} for name, n in p.get("topics", {"t": 2}).items()}
        cl = Cluster(world, nbrokers=p.get("brokers", 2), topics=topics,
                     versions={"JoinGroup": (0, p.get("join_max", 5))}, coordinator=0)
        world.server = cl
        self.cluster = cl
        cl.heartbeat_in_completing = p.get("hb_completing", 0)
        cl.group_authorized = not p.get("group_unauthorized", False)  # ACL state: every group API answers GROUP_AUTHORIZATION_FAILED
        world.app_eager = p.get("baseline", "net") == "app"
        world.p_enabled = bool(p.get("p_enabled", True))
        world.k_mid = bool(p.get("k_mid", False))
        cl.fault_kinds = tuple(p.get("faults", ("drop-before", "drop-after", "lose", "err")))
        cl.fault_apis = set(p.get("fault_apis", GROUP_APIS))
        cl.err_codes = {k: list(v) for k, v in p.get("errs", {}).items()}
        cl.write_hooks.append(self.on_write)
        cl.response_hooks.append(self.on_response)
        cl.close_hooks.append(self.on_close)
        n = p.get("records", 4)
        for tname, t in cl.topics.items():
            for part in t.partitions:
                raws = [krecords.encode_v2([(1_600_000_000_000 + k, None, b"%s-%d-%d" % (tname.encode(), part.index, k), [])])
                        for k in range(n)]
                cl.preload(tname, part.index, raws)
        world.extra_alts.append(self.extra_alts)
        world.main_task = world.spawn("h", self.main)

    def extra_alts(self, world, quiescent):
        out = []
        p = self.p
        ch = world.chooser
        if p.get("kill") and ch.remaining("k") > 0 and not self.killed:
            for i, c in self.consumers.items():
                if self.alive.get(i) and i not in self.stopped:
                    out.append(Alt(f"kill:c{i}", "k", lambda i=i: self.kill(i)))
        if p.get("stop_alt") and ch.remaining("k") > 0 and not self.stop_tasks and not self.killed:
            for i, c in self.consumers.items():
                if i not in self.stopped and self.alive.get(i) and (i in self.started or p.get("stop_during_start")):
                    out.append(Alt(f"stop:c{i}", "k", lambda i=i: self.begin_stop(i)))
        if p.get("cluster_modes") and quiescent and ch.remaining("f") > 0 and not getattr(self, "_mode", None):
            for n in self.cluster.nodes:
                out.append(Alt(f"broker-down:{n}", "f", lambda n=n: self.set_mode(("down", n))))
            out.append(Alt("blackhole", "f", lambda: self.set_mode(("blackhole",))))
        if p.get("coord_move") and quiescent and ch.remaining("f") > 0 and not getattr(self, "_moved", False):
            out.append(Alt("coord-move:keep", "f", lambda: self.move_coordinator(False)))
            out.append(Alt("coord-move:lose", "f", lambda: self.move_coordinator(True)))
        if p.get("md_refresh") and ch.remaining("x") > 0:
            # the phase of the periodic metadata refresh timer is unconstrained: a refresh may start at any instant. Offered
            # while a member has a JoinGroup/SyncGroup in flight (a refresh landing inside a rebalance round trip)
            busy = {e.conn.owner for e in world.net.pending if e.kind in ("req", "resp") and e.info in ("JoinGroup", "SyncGroup", "JoinGroupR", "SyncGroupR")}
            for i, c in self.consumers.items():
                if f"c{i}" in busy and self.alive.get(i) and i not in self.killed:
                    out.append(Alt(f"md-refresh:c{i}", "x", lambda i=i, c=c: self.refresh_metadata(i, c)))
        return out

    def refresh_metadata(self, i, c):
        from vf.explore import contextvars_copy

        self.rec("md-refresh", i)
        contextvars_copy(f"c{i}").run(c._client.force_metadata_update)

    def kill(self, i):
        self.killed.add(i)
        self.alive[i] = False
        self.rec("killed", i)
        self.world.loop.kill(f"c{i}")

    def set_mode(self, mode):
        self._mode = mode
        self.rec("cluster-mode", None, mode)
        if mode[0] == "down":
            self.cluster.broker_down(mode[1])
        else:
            self.cluster.blackhole = True  # every broker keeps accepting bytes and never answers

    def move_coordinator(self, lose):
        self._moved = True
        cl = self.cluster
        cl.coordinator = (cl.coordinator + 1) % len(cl.nodes)
        if lose:
            for g in cl.groups.values():
                g.lose_state()
        self.rec("coord-move", None, lose)

    # ---------------------------------------------------------------------------------------------------------
    def make_consumer(self, i, spec):
        from aiokafka import AIOKafkaConsumer
        from aiokafka.coordinator.assignors.range import RangePartitionAssignor
        from aiokafka.coordinator.assignors.roundrobin import RoundRobinPartitionAssignor
        from aiokafka.coordinator.assignors.sticky.sticky_assignor import StickyPartitionAssignor

        table = {"range": RangePartitionAssignor, "roundrobin": RoundRobinPartitionAssignor,
                 "sticky": type(f"Sticky{i}", (StickyPartitionAssignor,), {"member_assignment": None, "generation": -1})}
        strategy = tuple(table[a] for a in spec.get("assignors", ["range"]))
        p = self.p
        return AIOKafkaConsumer(
            bootstrap_servers="b0:9000", client_id=f"c{i}", group_id="g" if spec.get("group", True) else None, auto_offset_reset="earliest",
            enable_auto_commit=spec.get("auto_commit", True), auto_commit_interval_ms=p.get("auto_commit_interval_ms", 400),
            session_timeout_ms=int(SESSION * 1000), heartbeat_interval_ms=int(HEARTBEAT * 1000),
            rebalance_timeout_ms=int(REBALANCE * 1000), request_timeout_ms=p.get("request_timeout_ms", 4000),
            retry_backoff_ms=50, fetch_max_wait_ms=400, metadata_max_age_ms=p.get("metadata_max_age_ms", 1_000_000),
            partition_assignment_strategy=strategy, max_poll_interval_ms=spec.get("max_poll_interval_ms", 300_000),
            group_instance_id=spec.get("group_instance_id"))

    async def member(self, i, spec):
        from aiokafka.abc import ConsumerRebalanceListener

        world = self.world
        scn = self
        p = self.p
        if spec.get("start"):
            await asyncio.sleep(spec["start"])
        c = self.make_consumer(i, spec)
        self.consumers[i] = c
        self.sub_index[id(c._subscription)] = i

        class L(ConsumerRebalanceListener):
            async def on_partitions_revoked(self, revoked):
                scn.rec("revoke-begin", i, frozenset((tp.topic, tp.partition) for tp in revoked))
                if scn.p.get("stretch"):
                    await world.gate(f"rv{i}")
                scn.rec("revoke-end", i)

            async def on_partitions_assigned(self, assigned):
                snap = frozenset((tp.topic, tp.partition) for tp in c.assignment())
                scn.rec("assign-begin", i, frozenset((tp.topic, tp.partition) for tp in assigned), snap)
                if scn.p.get("stretch"):
                    await world.gate(f"as{i}")
                scn.rec("assign-end", i)

        if spec.get("assign"):
            from aiokafka.structs import TopicPartition

            c.assign([TopicPartition(t, pi) for t, pi in spec["assign"]])
        elif spec.get("pattern"):
            c.subscribe(pattern=spec["pattern"], listener=L())
        else:
            c.subscribe(spec.get("topics", ["t"]), listener=L())
        self.rec("subscribe", i, tuple(spec.get("topics", ())) or spec.get("pattern"))
        # a member whose start() is still trying to join is a live member too (start() of a subscribed consumer only returns
        # after the first successful join)
        self.alive[i] = True
        try:
            await c.start()
        except Exception as e:  # noqa: BLE001 - a failed bootstrap is outside the properties
            self.alive[i] = False
            self.rec("start-failed", i, type(e).__name__)
            if p.get("stop_after_failed_start"):
                # the usual try/finally pattern: stop() is called although start() raised
                await self.do_stop(i, c)
            return
        self.started.add(i)
        self.rec("started", i)
        extra = []
        if spec.get("commit_task"):
            extra.append(world.spawn(f"c{i}", self.committer, i, c))
        resub = spec.get("resubscribe")
        try:
            while not self.stop_flag:
                if spec.get("stop") is not None and world.now() >= spec["stop"]:
                    break
                idle = spec.get("idle")
                if idle and idle[0] <= world.now() < idle[1]:
                    # the application stops polling for a while (longer than max_poll_interval_ms), then polls again
                    self.rec("idle-begin", i)
                    await asyncio.sleep(idle[1] - world.now())
                    self.rec("idle-end", i)
                if resub and world.now() >= resub[0]:
                    c.subscribe(resub[1], listener=L())
                    self.rec("subscribe", i, tuple(resub[1]))
                    resub = None
                try:
                    if spec.get("poll") == "getone":
                        # an application iterating with getone() / async for: blocks until a record arrives or stop() fails the call
                        msg = await c.getone()
                        from aiokafka.structs import TopicPartition as _TP

                        batch = {_TP(msg.topic, msg.partition): [msg]}
                    else:
                        batch = await c.getmany(timeout_ms=300, max_records=p.get("poll_max_records"))
                except Exception as e:  # noqa: BLE001
                    self.rec("poll-exc", i, type(e).__name__, str(e)[:80])
                    if i in self.stop_tasks:
                        break  # stop() was placed by the explorer: the pending call was failed, the program ends
                    await asyncio.sleep(0.1)
                    continue
                for tp, recs in batch.items():
                    for r in recs:
                        self.rec("deliver", i, (tp.topic, tp.partition), r.offset)
                if i in self.stop_tasks:
                    break
                if batch and spec.get("commit_after_poll"):
                    # the usual application pattern: process what was returned, then commit() without arguments
                    try:
                        await c.commit()
                        self.rec("commit-ok", i)
                    except Exception as e:  # noqa: BLE001 - CommitFailedError etc. are legitimate outcomes
                        self.rec("commit-exc", i, type(e).__name__)
        finally:
            for t in extra:
                t.cancel()
        if i in self.stop_tasks:
            await asyncio.wait([self.stop_tasks[i]])
            return
        await self.do_stop(i, c)

    async def do_stop(self, i, c):
        world = self.world
        t0 = world.now()
        g = self.cluster.groups.get("g")
        co = c._coordinator
        self.stop_ctx[i] = {"t0": t0, "f_spent": world.chooser.spent["f"], "generation": getattr(co, "generation", None),
                            "member_id": getattr(co, "member_id", None), "group_state": g.state if g else None,
                            # "its coordinator" = the node the member currently takes for the coordinator
                            "coordinator_up": (getattr(co, "coordinator_id", None) == self.cluster.coordinator
                                               and self.cluster.up.get(self.cluster.coordinator, False) and not self.cluster.blackhole)}
        self.rec("stop-begin", i)
        self.stopped[i] = None
        try:
            await c.stop()
        except BaseException as e:  # noqa: BLE001 - nobody cancels this task: a CancelledError here comes out of stop() itself
            self.rec("stop-exc", i, type(e).__name__, str(e)[:80])
        self.stopped[i] = world.now() - t0
        self.alive[i] = False
        self.rec("stop-end", i, self.stopped[i])
        if self.p.get("probe_after_stop"):
            for name, call in (("getone", lambda: c.getone()), ("getmany", lambda: c.getmany(timeout_ms=10))):
                try:
                    await asyncio.wait_for(call(), timeout=1.0)
                    self.rec("after-stop", i, name, "returned")
                except asyncio.TimeoutError:
                    self.rec("after-stop", i, name, "hung")
                except Exception as e:  # noqa: BLE001
                    self.rec("after-stop", i, name, type(e).__name__)

    def begin_stop(self, i):
        c = self.consumers[i]
        self.stop_tasks[i] = self.world.spawn(f"c{i}", self.do_stop, i, c)

    async def committer(self, i, c):
        while True:
            await asyncio.sleep(0.35)
            try:
                await c.commit()
                self.rec("commit-ok", i)
            except asyncio.CancelledError:
                raise
            except Exception as e:  # noqa: BLE001 - CommitFailedError etc. are legitimate outcomes
                self.rec("commit-exc", i, type(e).__name__)

    async def feeder(self):
        """Environment: an outside producer appends one record per partition every `interval` seconds (`count` rounds)."""
        interval, count = self.p["feed"]
        cl = self.cluster
        for k in range(count):
            await asyncio.sleep(interval)
            for tname, t in list(cl.topics.items()):
                for part in list(t.partitions):
                    raw = krecords.encode_v2([(1_600_000_100_000 + k, None, b"%s-%d-f%d" % (tname.encode(), part.index, k), [])])
                    cl.preload(tname, part.index, [raw])
                    cl._wake_fetchers(part)

    async def isolator(self, member, t0, t1):
        await asyncio.sleep(max(0.0, t0 - self.world.now()))
        self.rec("isolated", member)
        self.cluster.isolate(f"c{member}", True)
        await asyncio.sleep(max(0.0, t1 - self.world.now()))
        self.cluster.isolate(f"c{member}", False)
        self.rec("healed", member)

    async def env(self):
        """Metadata changes scheduled by the environment."""
        p = self.p
        evs = []
        if p.get("new_topic_at"):
            evs.append(tuple(p["new_topic_at"]) + ("new",))
        if p.get("grow_at"):
            evs.append(tuple(p["grow_at"]) + ("grow",))
        if p.get("isolate"):
            # a network partition cuts one live member off long enough to be evicted (session timeout), then heals
            member, t0, t1 = p["isolate"]
            self.world.spawn("h", self.isolator, member, t0, t1)
        if p.get("mode_at"):
            at, mode = p["mode_at"]
            await asyncio.sleep(max(0.0, at - self.world.now()))
            if mode[0] == "coord-move":
                self.move_coordinator(bool(mode[1]))
            else:
                self.set_mode(tuple(mode))
        for at, topic, parts, kind in sorted(evs):
            await asyncio.sleep(max(0.0, at - self.world.now()))
            cl = self.cluster
            if kind == "new":
                cl.add_topic(topic, {"partitions": parts})
            else:
                from vf.simkafka import Partition

                t = cl.topics[topic]
                for idx in range(len(t.partitions), parts):
                    leader = idx % len(cl.nodes)
                    t.partitions.append(Partition(topic, idx, leader, [leader, (leader + 1) % len(cl.nodes)]))
            self.rec("metadata-change", None, kind, topic, parts)

    async def main(self):
        world = self.world
        p = self.p
        tasks = [world.spawn(f"c{i}", self.member, i, spec) for i, spec in enumerate(p["members"])]
        self.member_tasks = tasks
        envt = world.spawn("h", self.env)
        if p.get("feed"):
            world.spawn("h", self.feeder)
        until = p.get("explore_until", 3.0)
        while world.now() < until:
            await asyncio.sleep(0.25)
        world.frozen = True
        self.rec("frozen", None)
        if p.get("stop_alt") and self.stop_tasks:
            await asyncio.wait(list(self.stop_tasks.values()), timeout=p.get("stop_bound", 30.0))
        while world.now() < max(until, world.last_dev_t) + p.get("h_conv", H_CONV):
            await asyncio.sleep(0.25)
        self.snap1 = self.snapshot()
        await asyncio.sleep(p.get("stable", STABLE))
        self.snap2 = self.snapshot()
        self.stop_flag = True
        for i, spec in enumerate(p["members"]):
            # a member blocked in getone() never looks at the flag: it is stopped from another task, as applications do
            if spec.get("poll") == "getone" and i in self.started and i not in self.stopped and i not in self.killed and i not in self.stop_tasks:
                self.begin_stop(i)
        live = [t for i, t in enumerate(tasks) if i not in self.killed]
        if live:
            await asyncio.wait(live, timeout=p.get("stop_bound", 30.0))
        self.hung = [i for i, t in enumerate(tasks) if i not in self.killed and not t.done()]
        if self.hung and __import__("os").environ.get("VF_DEBUG_HUNG"):
            for i in self.hung:
                co = tasks[i].get_coro()
                while co is not None and hasattr(co, "cr_frame"):
                    print("HUNG", i, co.cr_code.co_filename, co.cr_frame.f_lineno if co.cr_frame else None, co.cr_code.co_name)
                    co = co.cr_await
                print("HUNG-ON", i, co)
        envt.cancel()

    def snapshot(self):
        cl = self.cluster
        g = cl.groups.get("g")
        snap = {"t": self.world.now(), "tick": self.tick, "generation": g.generation if g else None, "state": g.state if g else None,
                "members": sorted(g.members) if g else [], "live": {}, "heartbeats": {}}
        for i, c in self.consumers.items():
            if not self.alive.get(i) or i in self.killed or i in self.stopped:
                continue  # a member that was killed or has begun stop() is not a live member
            co = c._coordinator
            snap["live"][i] = {"generation": getattr(co, "generation", None), "member_id": getattr(co, "member_id", None),
                               "assignment": frozenset((tp.topic, tp.partition) for tp in c.assignment()),
                               "subscription": tuple(sorted(c.subscription())),
                               # partitions of its subscribed topics this member has heard of (its own cluster metadata)
                               "known": frozenset((t, pi) for t in c._client.cluster.topics()
                                                  for pi in (c._client.cluster.partitions_for_topic(t) or ()))}
        snap["leader"] = g.leader if g else None
        return snap

    # ---- wire observers ---------------------------------------------------------------------------------------
    def on_write(self, conn, frame):
        api_key, ver, corr = kwire.peek_request_header(frame)
        name = kwire.API_NAMES.get(api_key)
        owner = conn.owner
        if not owner or not owner.startswith("c"):
            return
        i = int(owner[1:])
        self.inflight[(conn.label, corr)] = (api_key, ver, self.tick, i)
        if name == "Fetch":
            req = kwire.decode_request(frame)
            want = {(td["topic"], pd["partition"]): pd["fetch_offset"] for td in req.body["topics"] for pd in td["partitions"]}
            t = self.rec("fetch-w", i, conn.label, corr, tuple(sorted(want.items())))
            self.fetch_req[(conn.label, corr)] = (t, want)
        elif name == "OffsetCommit":
            b = kwire.decode_request(frame).body
            offs = {(td["name"], pd["partition_index"]): pd["committed_offset"] for td in b["topics"] for pd in td["partitions"]}
            self.rec("commit-w", i, b.get("generation_id", -1), b.get("member_id", ""), tuple(sorted(offs.items())))
        elif name in ("JoinGroup", "SyncGroup", "Heartbeat", "LeaveGroup", "FindCoordinator", "OffsetFetch"):
            b = kwire.decode_request(frame).body
            brief = None
            if name == "JoinGroup":
                brief = (b["member_id"], tuple(pr["name"] for pr in b["protocols"]), ver,
                         tuple(tuple(decode_subscription(pr["metadata"])) for pr in b["protocols"]))
            elif name == "SyncGroup":
                brief = (b["member_id"], b["generation_id"])
            elif name == "Heartbeat":
                brief = (b["member_id"], b["generation_id"])
            elif name == "LeaveGroup":
                brief = (b.get("member_id"),)
            self.rec("gw", i, name, brief, conn.label, corr)

    def on_close(self, conn):
        owner = conn.owner
        if owner and owner.startswith("c") and owner[1:].isdigit():
            self.rec("conn-closed", int(owner[1:]), conn.label)

    def on_response(self, conn, frame):
        (corr,) = struct.unpack_from(">i", frame)
        info = self.inflight.pop((conn.label, corr), None)
        if info is None:
            return
        api_key, ver, tick_w, i = info
        name = kwire.API_NAMES.get(api_key)
        if name == "Fetch":
            t_w, want = self.fetch_req.pop((conn.label, corr), (None, {}))
            try:
                body = kwire.decode_response(api_key, ver, frame)[1]
            except Exception:  # noqa: BLE001
                return
            got = {}
            for td in body["responses"]:
                for pr in td["partitions"]:
                    offs = []
                    if pr.get("records"):
                        for b in krecords.decode(pr["records"]):
                            offs.extend(r.offset for r in b.records)
                    got[(td["topic"], pr["partition_index"])] = (pr["error_code"], tuple(offs))
            self.rec("fetch-r", i, t_w, tuple(sorted(got.items())))
        elif name in ("JoinGroup", "SyncGroup", "Heartbeat", "OffsetFetch", "OffsetCommit", "FindCoordinator", "LeaveGroup"):
            try:
                body = kwire.decode_response(api_key, ver, frame)[1]
            except Exception:  # noqa: BLE001
                return
            brief = None
            if name == "JoinGroup":
                brief = (body["error_code"], body["generation_id"], body["member_id"], body["leader"], body.get("protocol_name"))
            elif name == "SyncGroup":
                brief = (body["error_code"], frozenset(decode_assignment(body["assignment"])) if body["error_code"] == 0 else None)
            elif name == "OffsetFetch":
                brief = tuple(sorted(((td["name"], pr["partition_index"]), pr["committed_offset"], pr["error_code"])
                                     for td in body["topics"] for pr in td["partitions"]))
            elif name == "OffsetCommit":
                brief = tuple(sorted(((td["name"], pr["partition_index"]), pr["error_code"]) for td in body["topics"] for pr in td["partitions"]))
            else:
                brief = (body.get("error_code"),)
            self.rec("gr", i, name, brief, tick_w)

    # ---- end of run ---------------------------------------------------------------------------------------------
    def finish(self, world):
        global _CURRENT
        _CURRENT = None
        if world.capped:
            return
        mt = world.main_task
        if mt.done() and not mt.cancelled() and mt.exception() is not None:
            self.fail("harness-main", {"what": "main-exception", "type": type(mt.exception()).__name__}, f"scenario main failed: {mt.exception()!r}")
            return
        checks = self.p.get("checks", ("c04", "c05", "c06"))
        from vf import oracles_group as og

        if "c04" in checks:
            og.check_c04(self)
        if "c05" in checks:
            og.check_c05(self)
        if "c06" in checks:
            og.check_c06(self)
        if "c19" in checks:
            og.check_c19(self)

    def outcome(self):
        g = self.cluster.groups.get("g")
        dl = tuple(sorted((e[3], e[4], e[5]) for e in self.ev if e[2] == "deliver"))
        return h64((dl, g.generation if g else None, tuple(sorted(g.offsets.items())) if g else None,
                    tuple(sorted(self.killed)), len(self.cluster.arrivals)))


def make(params):
    return GroupScenario(params)
