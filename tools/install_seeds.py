#!/usr/bin/env python3
"""Copy confirmed seeded changes from /tmp/seeds_<Cxx>/<Cxx>_<i>/ into /verif/seeded/<Cxx>_<i>/ (patch.diff, demo, meta.json).
meta.json is the seeding agent's own description plus what the lead confirmed (tools/confirm_seed.sh) and which check caught it
(STATUS table below, maintained by hand from tools/try_seed.sh runs)."""
import json
import os
import re
import shutil
import sys

ROOT = os.path.dirname(os.path.dirname(os.path.abspath(__file__)))
# seed -> (caught by check(s) or None, note)
STATUS = json.load(open(os.path.join(ROOT, "seeded", "STATUS.json")))


def main():
    confirm = {}
    for path in sys.argv[1:]:
        for line in open(path):
            m = re.match(r"CONFIRM (\w+): demo_clean_rc=(\d+) demo_mutated_rc=(\d+) tests='([^']*)'", line)
            if m:
                confirm[m.group(1)] = {"demo_clean_rc": int(m.group(2)), "demo_mutated_rc": int(m.group(3)), "tests_with_change": m.group(4)}
    n = 0
    for name, st in sorted(STATUS.items()):
        prop = name.split("_")[0]
        src = f"/tmp/seeds2_{prop}/{name}" if "_r2_" in name else f"/tmp/seeds_{prop}/{name}"
        dst = os.path.join(ROOT, "seeded", name)
        if not os.path.isdir(src):
            if not os.path.isdir(dst):
                print("missing", src)
            continue
        c = confirm.get(name)
        if not c or c["demo_clean_rc"] != 0 or c["demo_mutated_rc"] == 0 or "passed" not in c["tests_with_change"] or "failed" in c["tests_with_change"]:
            print("not confirmed, skipped:", name, c)
            continue
        os.makedirs(dst, exist_ok=True)
        for f in os.listdir(src):
            if f in ("patch.diff", "demo.py", "test_demo.py", "meta.json"):
                shutil.copy(os.path.join(src, f), dst)
        meta = json.load(open(os.path.join(dst, "meta.json")))
        meta["confirmed_by_lead"] = dict(c, how="tools/confirm_seed.sh: scratch worktree of /repo HEAD; demo on clean tree, git apply, full pytest suite, demo again")
        meta["detected_by"] = st.get("caught")
        meta["detection_note"] = st.get("note", "")
        json.dump(meta, open(os.path.join(dst, "meta.json"), "w"), indent=1)
        n += 1
    print("installed", n)


if __name__ == "__main__":
    main()
