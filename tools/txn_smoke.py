"""Debug helper: run one scen_txn execution with full trace.  usage: txn_smoke.py '<params json>' ['<deviations json>']"""
import json
import sys

from vf import build

build.install("plain")
from vf import explore, scen_txn  # noqa: E402

params = json.loads(sys.argv[1])
dev = [tuple(x) for x in json.loads(sys.argv[2])] if len(sys.argv) > 2 else []
bounds = json.loads(sys.argv[3]) if len(sys.argv) > 3 else {"f": 1, "r": 1, "k": 1}
res = explore.execute(scen_txn.make, params, dev, bounds, trace=True)
quiet = "-q" in sys.argv
if not quiet:
    for ev in res.trace[0]:
        print("  ", *ev)
print("choice points:", res.cps, "children:", len(res.children), "capped:", res.capped)
for o, s, m in res.violations:
    print("VERDICT", o, s, m)
w = res.world
print("calls:", w.scn.calls)
print("visible:", getattr(w.scn, "visible", None), "offsets:", getattr(w.scn, "goffsets", None))
if "-c" in sys.argv:
    for i, (q, labels, kinds) in enumerate(w.chooser.cps):
        print(i, q, list(zip(kinds, labels)))
