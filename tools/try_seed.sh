#!/bin/sh
# usage: tools/try_seed.sh <seed dir containing patch.diff> <property id> [more ids...]
# Applies the patch to a private scratch worktree of /repo, runs the quick checks against it, prints one line per check, removes the worktree.
d=$1; shift
name=$(basename "$d")
wt=/tmp/tryseed_$name
out=/tmp/tryseed_out_$name
git -C /repo worktree add --detach "$wt" HEAD >/dev/null 2>&1 || { echo "cannot create worktree"; exit 2; }
if ! git -C "$wt" apply "$d/patch.diff"; then echo "SEED $name: patch does not apply"; git -C /repo worktree remove --force "$wt"; exit 2; fi
mkdir -p "$out"
for c in "$@"; do
  t0=$(date +%s)
  (cd /verif && VERIF_REPO="$wt" VERIF_OUT="$out" ./check "$c" --tier "${TIER:-quick}" > "$out/$c.log" 2>&1)
  rc=$?
  n=$(grep -c "^VIOLATION" "$out/$c.log")
  echo "SEED $name check=$c rc=$rc violations=$n wall=$(( $(date +%s) - t0 ))s :: $(grep -m1 'oracle=' "$out/$c.log" | cut -c1-220)"
done
git -C /repo worktree remove --force "$wt"
