#!/usr/bin/env python3
"""Regenerate /verif/MANIFEST.json from the table below and validate it (python3-vt has jsonschema)."""
import json
import os
import sys

ROOT = os.path.dirname(os.path.dirname(os.path.abspath(__file__)))

MC = "model_checking"
EX = "exploration"

# id -> (category, technique, level text, level note, design ref)
CHECKS = {
    "C17": (EX, "exhaustive bounded input enumeration vs independent reference (Java int32 murmur2)",
            "Every key of length 0..2, every key over a 5-byte sign/boundary alphabet up to length 8 (quick) / 10 "
            "(thorough) and longer keys with every such tail pattern are hashed by the real partitioner and compared "
            "bit for bit with an independent int32 transcription of Java's murmur2; partition counts 1..1000 and every "
            "availability subset of <=4 partitions (with every random.choice index) are enumerated. Complete inside "
            "those bounds, nothing sampled.",
            "Trusted: the reference transcription of Utils.murmur2/toPositive. Random 4 KiB keys are not covered.",
            "3/C17"),
    "C12": (MC, "explicit-state exploration: every schedule of a bounded action alphabet executed on the real "
                "connection object and compared step by step with a reference model",
            "A real AIOKafkaConnection on an in-memory transport under a virtual clock is driven through every schedule "
            "over {issue request, feed response bytes to the next cut, advance clock, cancel waiter, EOF, reset} within "
            "stated bounds (1..3 requests quick / 1..4 thorough for interleavings, 1..8 for fragmentation, all pairs of "
            "cut positions, every single corruption at every frame position, EOF/reset after every byte, correlation "
            "counter wrap), each run from scratch; after every action each waiter's outcome must equal the reference "
            "model's. Exhaustive inside the bounds; states/transitions are the model states and actions executed.",
            "Trusted: the ~80-line reference model of the connection contract; hand-encoded response frames. Short "
            "writes client->broker and the deliberate FindCoordinator-v0 'Kafka 0.8.2 quirk' are not exercised.",
            "3/C12"),
    "C18": (EX, "exhaustive bounded enumeration of logins and single-field tamperings vs an independent RFC 5802 server",
            "Exhaustive bounded enumeration of real ScramAuthenticator logins (via step() and via "
            "AIOKafkaConnection._do_sasl_handshake v0/v1) against an independent RFC 5802/7677 server validated on the "
            "RFC example exchanges: credentials x salts 1..64 B x iteration counts 1..20000 x SHA-256/512 x server "
            "nonces, honest plus every single-field tampering of server-first (all nonce positions, salt bits, "
            "iteration count) and server-final (all signature bits, all text bits, wrong key/transcript/length, error "
            "attribute).",
            "Oracle: the honest login's client messages are accepted by the reference server and the client completes; "
            "the client completes only if the server nonce starts with its own and server-final carries the RFC-derived "
            "ServerSignature. Not demanded: rejecting a server nonce with empty server part, non-canonical base64 of "
            "the correct signature, SASLprep normalisation, empty username.",
            "3/C18"),
}

NOT_APPLICABLE = {}


def main():
    props = [json.loads(line)["id"] for line in open(os.path.join(ROOT, "properties.jsonl"))]
    checks = []
    for pid in props:
        if pid not in CHECKS:
            continue
        cat, tech, text, note, ref = CHECKS[pid]
        checks.append({
            "property_id": pid,
            "quick_cmd": f"./check {pid} --tier quick",
            "thorough_cmd": f"./check {pid} --tier thorough",
            "evidence_file": f"/verif/evidence/{pid}.json",
            "replay_cmd_template": f"./check {pid} --replay {{path}}",
            "engine": "vf",
            "level_claimed": {"category": cat, "text": text, "design_ref": f"DESIGN.md §{ref}"},
            "level_note": note,
            "technique": tech,
        })
    na = [{"property_id": p, "reason": NOT_APPLICABLE.get(p, "check not built yet in this session (work in progress); "
                                                            "nothing is claimed for it")}
          for p in props if p not in CHECKS]
    manifest = {
        "version": 1,
        "setup_cmd": "./setup.sh",
        "hooks": {
            "guard": "AIOKAFKA_VERIF",
            "enable": "no source hooks are needed: checks import /repo's working tree (editable install) and build "
                      "the Cython extension from the working-tree .pyx into /verif/.cache",
            "baseline_off_cmd": "cd /repo && /venv/bin/python -m pytest -ra -q -p no:cacheprovider --timeout=900 "
                                "--continue-on-collection-errors",
            "source_commits": [],
            "add_only": True,
        },
        "engines": [{
            "name": "vf",
            "path": "/verif/vf",
            "serves_properties": [c["property_id"] for c in checks],
            "kind_free_text": "stateless deviation-bounded explorer over the real asyncio code under a virtual-time "
                              "event loop with in-memory transports and a simulated Kafka cluster; bounded exhaustive "
                              "input enumerators with independent reference codecs",
        }],
        "checks": checks,
        "not_applicable": na,
        "notes": "All checks: ./check <id> --tier quick|thorough. Exit 0 held / 1 VIOLATION / 2 harness error.",
    }
    path = os.path.join(ROOT, "MANIFEST.json")
    with open(path, "w") as f:
        json.dump(manifest, f, indent=1)
        f.write("\n")
    try:
        import jsonschema
        schema = json.load(open("/root/.vp/MANIFEST.schema.json"))
        jsonschema.validate(manifest, schema)
        es = json.load(open("/root/.vp/EVIDENCE.schema.json"))
        for c in checks:
            p = c["evidence_file"]
            if os.path.exists(p):
                jsonschema.validate(json.load(open(p)), es)
            else:
                print("no evidence yet:", p)
        print("MANIFEST.json valid;", len(checks), "checks,", len(na), "not claimed")
    except ImportError:
        print("jsonschema not available; wrote without validating", file=sys.stderr)


if __name__ == "__main__":
    main()
