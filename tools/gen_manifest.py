#!/usr/bin/env python3
"""Regenerate /verif/MANIFEST.json from the table below and validate it (python3-vt has jsonschema)."""
import json
import os
import sys

ROOT = os.path.dirname(os.path.dirname(os.path.abspath(__file__)))

MC = "model_checking"
EX = "exploration"

# id -> (category, technique, level text, level note, design ref)
CHECKS = {
    "C17": (EX, "exhaustive bounded input enumeration vs independent reference (Java int32 murmur2)",
            "Every key of length 0..2, every key over a 5-byte sign/boundary alphabet up to length 8 (quick) / 10 "
            "(thorough) and longer keys with every such tail pattern are hashed by the real partitioner and compared "
            "bit for bit with an independent int32 transcription of Java's murmur2; partition counts 1..1000 and every "
            "availability subset of <=4 partitions (with every random.choice index) are enumerated. Complete inside "
            "those bounds, nothing sampled.",
            "Trusted: the reference transcription of Utils.murmur2/toPositive. Random 4 KiB keys are not covered.",
            "3/C17"),
    "C12": (MC, "explicit-state exploration: every schedule of a bounded action alphabet executed on the real "
                "connection object and compared step by step with a reference model",
            "A real AIOKafkaConnection on an in-memory transport under a virtual clock is driven through every schedule "
            "over {issue request, feed response bytes to the next cut, advance clock, cancel waiter, EOF, reset} within "
            "stated bounds (1..3 requests quick / 1..4 thorough for interleavings, 1..8 for fragmentation, all pairs of "
            "cut positions, every single corruption at every frame position, EOF/reset after every byte, correlation "
            "counter wrap), each run from scratch; after every action each waiter's outcome must equal the reference "
            "model's. Exhaustive inside the bounds; states/transitions are the model states and actions executed.",
            "Trusted: the ~80-line reference model of the connection contract; hand-encoded response frames. Short "
            "writes client->broker and the deliberate FindCoordinator-v0 'Kafka 0.8.2 quirk' are not exercised.",
            "3/C12"),
    "C18": (EX, "exhaustive bounded enumeration of logins and single-field tamperings vs an independent RFC 5802 server",
            "Exhaustive bounded enumeration of real ScramAuthenticator logins (via step() and via "
            "AIOKafkaConnection._do_sasl_handshake v0/v1) against an independent RFC 5802/7677 server validated on the "
            "RFC example exchanges: credentials x salts 1..64 B x iteration counts 1..20000 x SHA-256/512 x server "
            "nonces, honest plus every single-field tampering of server-first (all nonce positions, salt bits, "
            "iteration count) and server-final (all signature bits, all text bits, wrong key/transcript/length, error "
            "attribute).",
            "Oracle: the honest login's client messages are accepted by the reference server and the client completes; "
            "the client completes only if the server nonce starts with its own and server-final carries the RFC-derived "
            "ServerSignature. Not demanded: rejecting a server nonce with empty server part, non-canonical base64 of "
            "the correct signature, SASLprep normalisation, empty username.",
            "3/C18"),
}

STATEFUL_NOTE = ("Trusted: the simulated cluster (vf.simkafka, Kafka's documented broker rules, speaking through independent wire "
                 "tables and an independent record codec), the virtual-time loop (timers fire only at loop-iteration boundaries; "
                 "asyncio's FIFO ready order is kept), the oracles. Behaviours needing more simultaneous deviations than the "
                 "budget vectors allow are not covered; the evidence lists the vectors completed and any cap hit.")

CHECKS.update({
    "C01": (MC, "stateless deviation-bounded exhaustive exploration of the real producer (schedules x retriable faults) "
                "under a controlled virtual-time event loop against a simulated cluster",
            "The real AIOKafkaProducer (accumulator, sender, transaction manager, client, connections) runs on a virtual-time "
            "asyncio loop against a simulated 2-3 broker cluster. Every execution whose deviation counts (r reorderings of "
            "deliveries/application calls/timers, p events injected mid-cascade, f faults from {connection drop before/after "
            "apply, lost reply, NOT_LEADER, LEADER_NOT_AVAILABLE, UNKNOWN_TOPIC_OR_PARTITION, REQUEST_TIMED_OUT, "
            "NOT_ENOUGH_REPLICAS(_AFTER_APPEND), leader move}) fit a budget vector is run from scratch, from a net-eager and "
            "an app-eager baseline, for idempotent / acks=1 / acks=all x single-record / lingering multi-record / gzip batches "
            "and sequence counters starting at 2^31-3..2^31-1. Monitors: no second ProduceRequest for a partition written "
            "while one is unanswered on a live connection; presented sequences gap-free, never reused for other records, "
            "inside 0..2^31-1; log content = accepted sends, per-task order kept, idempotent => at most once and "
            "acknowledged => exactly once, otherwise duplicates only as whole batches.",
            STATEFUL_NOTE, "3/C01"),
    "C02": (MC, "stateless deviation-bounded exhaustive exploration of the real producer (configuration grid x schedules x "
                "faults x flush/stop placement) against a simulated cluster",
            "Same engine as C01 with the future oracles: every future returned by send()/send_batch() resolves exactly once "
            "within the horizon; a successful RecordMetadata names the (partition, offset) where that record's key/value sits "
            "in the simulated log, with the stored timestamp (user timestamp under CreateTime, broker time under "
            "LogAppendTime) and the topic's timestamp type; acks=0 resolves to None; flush()/stop(), placed by the explorer "
            "at every choice point (budget k), return only after every previously accepted future is done; idempotent + "
            "retriable faults never fail a record. Grid: acks {0,1,all,idempotent} x Produce v0..v7 x CreateTime/LogAppendTime "
            "x batch shapes (equal / increasing / decreasing / default timestamps, two partitions).",
            STATEFUL_NOTE + " Default timestamps are stamped by the C wall clock inside the compiled builder, which the "
            "harness does not own: for those records only 'a timestamp is reported' is demanded.", "3/C02"),
    "C09": (EX, "exhaustive bounded input enumeration: both builders x three readers vs an independent reference codec",
            "Every record sequence of length 0..3 over the boundary grid (null/empty/1/63/64/8191/8192-byte keys and values, "
            "header shapes, timestamp shapes) x magic 0/1/2 x every codec x {compiled, pure-Python} builder is built, "
            "validated structurally against the format definition and decoded by {compiled, pure-Python, reference} readers; "
            "batch_size limits around the encoded size, producer-field extremes, reference-built control / LogAppendTime / "
            "compacted batches, every concatenation of 1..3 batches of mixed magic with every trailing partial batch.",
            "Trusted: vf.krecords (reference codec written from the format definition), zlib/cramjam primitives. "
            "Byte-identical output of the two builders is not demanded.", "3/C09"),
    "C11": (EX, "exhaustive bounded input enumeration vs independent hand-written protocol tables",
            "Every RequestStruct/Response class found by reflection x each field in turn at every boundary value of its wire "
            "type is encoded and compared byte for byte with an independent table-driven encoder, decoded back, and the "
            "reply the reference encodes for the request's header version is parsed through RESPONSE_TYPE and the chosen "
            "header form; every Request builder x every broker range 0<=min<=max<=max_known+1 (and absent) x its parameter "
            "grid: header version = highest common one, IncompatibleBrokerVersion for the five named parameter kinds.",
            "Trusted: vf.kwire tables (transcribed by hand from the Kafka message definitions, self-tested on the byte "
            "strings pinned in the repository's tests). Value vectors are 1-wise (one field off default at a time).", "3/C11"),
    "C14": (EX, "exhaustive bounded input enumeration vs independent statements of validity and balance",
            "Every layout of <=4 members x <=3 topics x {no metadata, 0..4 partitions} x every non-empty subscription per "
            "member through the real range, round-robin and sticky assignors (sticky also with previous-assignment user "
            "data) on a real ClusterMetadata: each partition of each subscribed topic with metadata has exactly one owner "
            "who subscribes to it, nothing else is assigned; range per topic and round-robin with identical subscriptions "
            "within one; sticky balanced in the KIP-54 sense.",
            "Quick tier: the <=3-member / <=2-topic slice plus small 4x3 layouts; thorough: the full bounded space. Random "
            "layouts beyond the bound are not covered.", "3/C14"),
})

CHECKS.update({
    "C15": (EX, "exhaustive bounded enumeration of multi-round assignment histories vs an independent statement of what may move",
            "Every first-round input of C14's bounded space is followed by a second round that is identical, minus every "
            "non-empty proper subset of members, or plus 1-2 new members (at every sort position), with previous assignments "
            "carried through the real metadata()/on_assignment() user-data encoding of per-member assignor subclasses; a third "
            "round is chained on the 1-member slice. Oracle: identical input => identical result; identical subscriptions => no "
            "partition moves between surviving / between old members.",
            "Trusted: the independent movement oracle; PYTHONHASHSEED=0 fixes set iteration order. Chains of 5 random rounds are "
            "not covered.", "3/C15"),
})

GROUP_TEXT = ("2-3 real group AIOKafkaConsumers (coordinator, heartbeat, fetcher, client, connections) run on one virtual-time loop against a "
              "simulated group coordinator (JoinGroup v0-v5 incl. MEMBER_ID_REQUIRED, join/sync barriers, session and rebalance timers, "
              "OffsetCommit/OffsetFetch) while an outside producer keeps appending records. Every execution whose deviation counts "
              "(r reorderings incl. timer-first, p mid-cascade injections, f faults: drop before/after apply, lost reply, every transient "
              "coordinator error code per API, coordinator move with/without state, k kill of a member at any choice point) fit a budget "
              "vector is run from scratch; deviations are placed in the first virtual seconds, then the environment is quiet. ")

CHECKS.update({
    "C04": (MC, "stateless deviation-bounded exhaustive exploration of real multi-member consumer groups (schedules x faults x kill points) "
                "against a simulated coordinator",
            GROUP_TEXT + "Oracles: at the instant any OffsetCommit is written every visible record between the member's start position "
            "and the committed offset had been handed to its application; at the end of the quiet period every visible record was "
            "delivered to some member; a re-delivered record lies at or above the committed offset its owner was given.",
            STATEFUL_NOTE, "3/C04"),
    "C05": (MC, "stateless deviation-bounded exhaustive exploration of real multi-member consumer groups (rebalances overlapping fetches, "
                "stretched callbacks, subscription/metadata changes) against a simulated coordinator",
            GROUP_TEXT + "Scenarios: equal/different subscriptions, range/roundrobin/sticky and assignor pairs, pattern subscription with a "
            "topic appearing, partition growth, subscribe() during a rebalance, listener callbacks gated by the explorer. Oracles: the "
            "leader's distribution per generation is pairwise disjoint and inside subscriptions; what a member adopts and reports equals "
            "its SyncGroup bytes; revoked partitions are silent until re-assigned; every returned record was fetched by a request written "
            "after the current assignment was adopted; all revoke callbacks of a rebalance end before any assign callback of it starts.",
            STATEFUL_NOTE + " Adoption instants are observed by run-time wrappers around two SubscriptionState methods (observation only).",
            "3/C05"),
    "C06": (MC, "stateless deviation-bounded exhaustive exploration of real multi-member consumer groups (fault sequences x schedules x "
                "configurations) against a simulated coordinator, with a bounded-liveness horizon",
            GROUP_TEXT + "Configurations: 1-3 members, 1-3 assignors in several orders, JoinGroup capped at v0/v1/v2/v5, graceful leave, "
            "subscription change, membership error codes on single replies. Oracles: every JoinGroup written advertises all configured "
            "strategies in order; a successful JoinGroup reply is followed by that member's SyncGroup with the replied identity unless a "
            "fault or subscription change intervened; H = rebalance timeout + 2 x session timeout after the last deviation every live "
            "member is in the coordinator's latest generation, assignments cover the subscribed partitions, heartbeats keep arriving and "
            "the generation stays constant for a further 2 x session timeout.",
            STATEFUL_NOTE, "3/C06"),
})

CONSUMER_TEXT = ("The real AIOKafkaConsumer (fetcher, subscription state, client, connections; group-less via assign(), or with a group id "
                 "for committed offsets) runs on a virtual-time loop against the simulated cluster, which serves logs built by an "
                 "independent record codec. ")

CHECKS.update({
    "C03": (MC, "stateless deviation-bounded exhaustive exploration of the real consumer (log shapes x response cuts x call programs x "
                "schedules x faults) against a reference consumer model",
            CONSUMER_TEXT + "Every log of <=2 (quick) / <=3 (thorough) stored batches over 8 shapes (v0/v1 messages, gzip wrapper, v2 "
            "batches incl. compaction gaps, emptied and control batches) x every start offset x every cut into fetch responses, and every "
            "program of 1-2 tasks over {getone, getone(tp), getmany(max_records), seek, pause, resume, position}, under budget vectors "
            "of r/p/f deviations (leader move, retriable fetch errors, drops, lost replies). Oracle: a list-per-partition reference model: "
            "returned records = visible records from the start position, strictly increasing, none skipped or repeated, delivery reaches "
            "the log end after a quiet horizon, position() bounds, seek precedence, pause / partitions filter.",
            STATEFUL_NOTE, "3/C03"),
    "C08": (MC, "exhaustive enumeration of well-formed transactional logs x start offsets x response cuts on the real consumer and on "
                "PartitionRecords, plus deviation-bounded schedule exploration, vs an independent reference reader",
            CONSUMER_TEXT + "Every well-formed log of <=4 (quick) / <=6 (thorough) entries over {transactional data (pid 1..3), plain "
            "data, COMMIT, ABORT incl. solitary abort markers} with whole-batch compaction variants, every fetch start offset and "
            "every composition of the served batches into responses with the aborted-transaction index the broker computes for that "
            "range, both isolation levels, compiled and pure-Python record readers. Oracle: read_committed = non-transactional records "
            "+ records of committed transactions below the LSO, read_uncommitted = every data record below the HW, never a control "
            "record, position reaches the end of what was served, no fetch repeated without progress.",
            STATEFUL_NOTE, "3/C08"),
    "C13": (MC, "exhaustive configuration grid x deviation-bounded exploration (faults on lookups, seek placed at every choice point) of "
                "the real consumer",
            CONSUMER_TEXT + "Grid: committed offset {absent, inside, at a marker, above LSO, = log end, below log start, beyond log end} "
            "x auto_offset_reset {earliest, latest, none} x isolation level x {group id + assign, group-less} x ListOffsets capped at "
            "v0..v3, log start > 0 and LSO < HW. Faults on OffsetFetch / ListOffsets / FindCoordinator (retriable codes, drops, lost "
            "replies); a seek() offered at every quiescent point and every loop-iteration boundary between assignment and first "
            "delivery. Oracle: first delivered record / position() = committed offset if in range, else log start or the end offset "
            "for the isolation level, else NoOffsetForPartition / OffsetOutOfRange; a seek always wins.",
            STATEFUL_NOTE, "3/C13"),
    "C07": (MC, "stateless deviation-bounded exhaustive exploration of the real transactional producer (fault sequences x schedules x "
                "kill points) against a simulated transaction coordinator, with an independent read-committed reader",
            "The real transactional AIOKafkaProducer runs against the simulated transaction coordinator (InitProducerId epochs and "
            "fencing, AddPartitions/AddOffsets/TxnOffsetCommit/EndTxn state machine, marker writes as separately scheduled events, "
            "CONCURRENT_TRANSACTIONS windows). Ten program families (1-2 transactions over 1-3 partitions, send_offsets, commit/abort, "
            "concurrent send tasks, kill + second instance with the same transactional id, an ACL family) x net/app-eager baselines x "
            "budget vectors of r/p/f/k. Oracles: an independent read-committed reader sees all records and offsets of a transaction "
            "iff commit_transaction() returned, none of an aborted/failed/fenced one; at the instant of writing: no Produce before the "
            "coordinator acknowledged the partition, no EndTxn while an accepted send is unresolved, no transactional Produce outside "
            "begin..end; with retriable faults only the transaction ends as requested within the horizon.",
            STATEFUL_NOTE, "3/C07"),
    "C16": (MC, "exhaustive enumeration of call sequences x single injected errors on the real transactional producer vs a reference "
                "model of the documented API",
            "Every sequence of <=4 (quick) / <=6 (thorough) calls over {begin, send(p0), send(p1), send_offsets, commit, abort, "
            "transaction() exit clean / with exception}, generated over a ~60-line reference model, x {no fault, one abortable error "
            "(topic / group ACL as cluster state), one fatal error (fencing by a second InitProducerId, OUT_OF_ORDER_SEQUENCE, "
            "transactional-id ACL), one retriable error} at each transactional request, net/app-eager baselines. Oracle: per call the "
            "model's returns / raises; no request caused by an illegal call, none after a fatal error, pending sends fail after a fatal "
            "error, commit after an abortable error raises it, and a new transaction succeeds after abort.",
            STATEFUL_NOTE, "3/C16"),
    "C10": (EX, "exhaustive bounded enumeration of truncations / substitutions / field mutations of valid buffers under an "
                "AddressSanitizer build",
            "A corpus of 40 valid buffers (all magics, plain and compressed, mixed-magic concatenations) x every truncation point, every "
            "byte replaced by 7 boundary values (thorough: all 255), every int32 / varint field replaced by boundary values, inner "
            "payloads of compressed wrappers mutated before re-compression. Each input is decoded by the compiled codec rebuilt from the "
            "working tree with AddressSanitizer (system allocator, poisoned trailing byte) under a CPU watchdog, and by the pure-Python "
            "codec, with and without validate_crc(). Oracle: records or an ordinary exception - never an ASan report, signal, timeout, "
            "SystemError or MemoryError; a batch whose CRC does not match is reported invalid by both implementations.",
            "Trusted: AddressSanitizer's reach (reads that stay inside the same heap chunk are invisible). Random byte strings are not "
            "covered.", "3/C10"),
    "C19": (MC, "stateless exploration with stop() placed at every choice point (quiescent and mid-cascade) of producer, group-consumer "
                "and group-less workloads under each cluster condition",
            "Workloads of C01-C06 with stop() placed by the explorer (budget k) at every choice point and every loop-iteration boundary, "
            "for each cluster condition in force at that moment (healthy, coordinator down, other broker down, every broker silently "
            "dropping replies, coordinator failover with / without state). Oracles: stop() returns (and does not raise) within a small "
            "multiple of the request timeout plus session/rebalance timeout of virtual time; afterwards no task, timer handle or "
            "transport created by that client is alive (ownership via contextvars), the loop reports no unretrieved exception after "
            "gc.collect(), later calls raise ProducerClosed / ConsumerStoppedError, and a member whose known coordinator was reachable "
            "has written LeaveGroup.",
            STATEFUL_NOTE, "3/C19"),
})

NOT_APPLICABLE = {}


def main():
    props = [json.loads(line)["id"] for line in open(os.path.join(ROOT, "properties.jsonl"))]
    checks = []
    for pid in props:
        if pid not in CHECKS:
            continue
        cat, tech, text, note, ref = CHECKS[pid]
        checks.append({
            "property_id": pid,
            "quick_cmd": f"./check {pid} --tier quick",
            "thorough_cmd": f"./check {pid} --tier thorough",
            "evidence_file": f"/verif/evidence/{pid}.json",
            "replay_cmd_template": f"./check {pid} --replay {{path}}",
            "engine": "vf",
            "level_claimed": {"category": cat, "text": text, "design_ref": f"DESIGN.md §{ref}"},
            "level_note": note,
            "technique": tech,
        })
    na = [{"property_id": p, "reason": NOT_APPLICABLE.get(p, "check not built yet in this session (work in progress); "
                                                            "nothing is claimed for it")}
          for p in props if p not in CHECKS]
    manifest = {
        "version": 1,
        "setup_cmd": "./setup.sh",
        "hooks": {
            "guard": "AIOKAFKA_VERIF",
            "enable": "no source hooks are needed: checks import /repo's working tree (editable install) and build "
                      "the Cython extension from the working-tree .pyx into /verif/.cache",
            "baseline_off_cmd": "cd /repo && /venv/bin/python -m pytest -ra -q -p no:cacheprovider --timeout=900 "
                                "--continue-on-collection-errors",
            "source_commits": [],
            "add_only": True,
        },
        "engines": [{
            "name": "vf",
            "path": "/verif/vf",
            "serves_properties": [c["property_id"] for c in checks],
            "kind_free_text": "stateless deviation-bounded explorer over the real asyncio code under a virtual-time "
                              "event loop with in-memory transports and a simulated Kafka cluster; bounded exhaustive "
                              "input enumerators with independent reference codecs",
        }],
        "checks": checks,
        "not_applicable": na,
        "notes": "All checks: ./check <id> --tier quick|thorough. Exit 0 held / 1 VIOLATION / 2 harness error.",
    }
    path = os.path.join(ROOT, "MANIFEST.json")
    with open(path, "w") as f:
        json.dump(manifest, f, indent=1)
        f.write("\n")
    try:
        import jsonschema
        schema = json.load(open("/root/.vp/MANIFEST.schema.json"))
        jsonschema.validate(manifest, schema)
        es = json.load(open("/root/.vp/EVIDENCE.schema.json"))
        for c in checks:
            p = c["evidence_file"]
            if os.path.exists(p):
                jsonschema.validate(json.load(open(p)), es)
            else:
                print("no evidence yet:", p)
        print("MANIFEST.json valid;", len(checks), "checks,", len(na), "not claimed")
    except ImportError:
        print("jsonschema not available; wrote without validating", file=sys.stderr)


if __name__ == "__main__":
    main()
