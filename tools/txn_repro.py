"""Standalone reproductions of the transactional-producer defects found by C07 / C16 (no search involved).

usage (from /verif):  PYTHONHASHSEED=0 PYTHONPATH=/repo:/verif /venv/bin/python tools/txn_repro.py [name ...]

Each case is a scenario of vf.scen_txn plus a list of environment deviations given by *label prefix* (the first choice
point, after the previous deviation, that offers such an alternative is used), so the cases survive changes of choice
point numbering.  The real AIOKafkaProducer runs against the simulated cluster; the event story and the oracle verdicts
are printed.  Exit code 1 if any selected case still violates its property.
"""
import sys

from vf import build

build.install("plain")
from vf import explore, scen_txn  # noqa: E402

C16 = {"mode": "c16", "baseline": "net", "faults": ["acl-topic", "acl-group", "fence", "oos", "acl-txn", "retriable"]}
RETRIABLE = ["drop-before", "drop-after", "lose", "err", "coord-move", "delay-markers"]

CASES = {
    # C16: OUT_OF_ORDER_SEQUENCE_NUMBER on Produce only fails the batch; commit_transaction() then returns normally
    "oos-not-fatal": (dict(C16, calls=["begin", "send0", "commit"]), ["oos@"]),
    # C16: fencing noticed on Produce (INVALID_PRODUCER_EPOCH) is not fatal: the next send() is accepted, requests go on
    "fenced-on-produce-not-fatal": (dict(C16, calls=["begin", "send0", "send0"]), ["fence@pa>0#3:Produce"]),
    # C16: TOPIC_AUTHORIZATION_FAILED on Produce does not doom the transaction: commit returns normally
    "topic-auth-on-produce-commit-ok": (dict(C16, calls=["begin", "send0", "commit"]), ["acl-topic@pa>0#3:Produce"]),
    # C16: abortable error at AddPartitionsToTxn, abort, new transaction: Produce gets OUT_OF_ORDER_SEQUENCE (the failed batch
    # consumed its sequence number), commit returns, record invisible
    "new-txn-after-abortable-fails": (dict(C16, baseline="app", calls=["begin", "send0"]), ["acl-topic@pa>0#2:AddPartitionsToTxn"]),
    # C07 (retriable fault only): the connection carrying FindCoordinator is reset -> sender task dies -> commit raises KafkaError
    "sender-dies-on-findcoordinator-reset": (
        {"mode": "c07", "baseline": "net", "faults": RETRIABLE, "program": [{"sends": [[0]], "offsets": True, "end": "commit"}]},
        [("drop-before:pa>2#1:FindCoordinator", 1)]),  # the second lookup (group coordinator for TxnOffsetCommit), not the one in start()
    # C07 acl family: t-0 added and written, then AddPartitionsToTxn(u-0) refused; abort_transaction() sends NO EndTxn
    # (error_transaction cleared _txn_partitions) and the Produce for the refused partition is written anyway; the coordinator
    # keeps the transaction open and the next commit commits the aborted record too
    "abort-after-abortable-error-sends-no-endtxn": (
        {"mode": "c07", "baseline": "net", "faults": ["acl-topic"], "liveness": False, "family": "acl",
         "program": [{"sends": [[0, 1]], "end": "abort"}, {"sends": [[0]], "end": "commit"}]},
        [("acl-topic@", 1)]),
}
BOUNDS = {"f": 2, "r": 2, "k": 1}


def find_deviations(params, prefixes):
    dev = []
    for want in prefixes:
        want, skip = want if isinstance(want, tuple) else (want, 0)
        res = explore.execute(scen_txn.make, params, dev, BOUNDS, trace=True)
        labels = res.trace[2]
        start = dev[-1][0] + 1 if dev else 0
        hit = None
        for i in range(start, len(labels)):
            for j, lab in enumerate(labels[i]):
                if j and lab.startswith(want):
                    hit = (i, j, lab)
                    break
            if hit and skip:
                hit, skip = None, skip - 1
            elif hit:
                break
        if hit is None:
            raise SystemExit(f"no choice point offers {want!r} after {dev}")
        dev.append(hit)
    return dev


def main(names):
    rc = 0
    for name in names or list(CASES):
        params, prefixes = CASES[name]
        dev = find_deviations(params, prefixes)
        print(f"=== {name}: deviations {dev}")
        res = explore.execute(scen_txn.make, params, dev, BOUNDS, trace=True)
        for ev in res.trace[0]:
            if ev[1] in ("H", "FAULT", "arrive", "marker-written", "ACLs restored") or ev[1] == "conn-closed":
                if "ApiVersions" in ev or "Metadata" in ev:
                    continue
                print("  ", *ev)
        print("   read-committed view:", {k: v for k, v in res.world.scn.visible.items() if v})
        for o, s, m in res.violations:
            print("   VERDICT", o, s, "::", m[:400])
            rc = 1
    return rc


if __name__ == "__main__":
    sys.exit(main(sys.argv[1:]))
