#!/bin/sh
# usage: tools/confirm_seed.sh <seed dir> ; confirms in a scratch worktree of /repo HEAD that (1) the demo passes on the clean tree,
# (2) the patch applies, (3) the repository's test suite still passes with it, (4) the demo fails with it. Prints one line.
d=$1
name=$(basename "$d")
wt=/tmp/confirm_$name
git -C /repo worktree add --detach "$wt" HEAD >/dev/null 2>&1 || { echo "CONFIRM $name: cannot create worktree"; exit 2; }
cd "$wt" || exit 2
cp /repo/aiokafka/record/_crecords/*.so aiokafka/record/_crecords/ 2>/dev/null
demo=$(ls "$d"/demo.py "$d"/test_demo.py 2>/dev/null | head -1)
timeout 300 /venv/bin/python "$demo" >/tmp/confirm_$name.clean.log 2>&1; rc_clean=$?
if ! git apply "$d/patch.diff" 2>/tmp/confirm_$name.apply.log; then echo "CONFIRM $name: patch does not apply to HEAD"; cd /; git -C /repo worktree remove --force "$wt"; exit 1; fi
if git diff --name-only | grep -q "\.pyx\|\.pxd"; then /venv/bin/python setup.py build_ext --inplace >/dev/null 2>&1; fi
tests=$(timeout 1800 /venv/bin/python -m pytest -q -p no:cacheprovider --timeout=900 2>&1 | tail -1)
timeout 300 /venv/bin/python "$demo" >/tmp/confirm_$name.mut.log 2>&1; rc_mut=$?
echo "CONFIRM $name: demo_clean_rc=$rc_clean demo_mutated_rc=$rc_mut tests='$tests'"
cd /; git -C /repo worktree remove --force "$wt"; rm -rf "$wt"
